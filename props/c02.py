"""C02 - a multi-variable query returns exactly the satisfying assignments (projected on the selection)."""
from __future__ import annotations

import json
import random

from symex.case import Case
from symex import eqlshapes as S
from symex import querycase as Q

ASSUMPTIONS = [
    "domains are lists of distinct eq=False @symbol instances; join keys are unbounded integers or symbolic object "
    "references into the partner pool (every reference pattern)",
    "row equality is demanded on row SETS; multiplicity only when every variable is selected (as the property states)",
]
BOUNDS = {
    "quick": dict(domains="2x2 and 2x2x2 (self-join included)", leaves="L<=2 join/single-variable leaves, and/or/not",
                  selections="every non-empty ordered selection of the variables + attribute expressions"),
    "thorough": dict(domains="3x2, 2x3, 2x2x2", leaves="L<=3", selections="all"),
}
LIMITS = {"quick": dict(max_paths=8000, max_wall=90), "thorough": dict(max_paths=60000, max_wall=400)}
FIDELITY_EVERY = {"quick": 4, "thorough": 2}
WALL_BUDGET = {"quick": 480, "thorough": 3300}


class C02(Case):
    prop = "C02"

    def run(self, mk):
        sp = self.spec
        pools = Q.make_pools(mk, sp)
        data = dict(pools=pools, rows=None)
        try:
            q, sel, V = Q.build_query(sp, pools)
            rows = Q.rows_of(list(q.evaluate()), sel, sp, pools)
        except Exception as e:
            return data, ["exc", type(e).__name__, str(e)[:200]]
        data["rows"] = rows
        return data, Q.view(rows, sp)

    def obligations(self, alg, data, outcome):
        if outcome and outcome[0] == "exc":
            return [("no_exception:%s" % outcome[1], alg.const(False))]
        sp = self.spec
        pools = data["pools"]
        allobjs = [o for p in pools.values() for o in p]
        cond = sp.get("cond")

        def sat(sigma):
            if not cond:
                return alg.const(True)
            return Q.holds(alg, cond, Q.env_of(sigma, sp, pools), allobjs)
        return Q.row_obligations(alg, data["rows"], sp, pools, sat)

    def regions(self, alg, data, outcome):
        return {}


def make_case(spec):
    return C02(spec)


# ------------------------------------------------------------------------------------------ shapes
def xy_leaves():
    """Leaves relating x (pool X, refs into Y) and y (pool Y)."""
    return [
        ["cmp", "eq", ["ra", "x"], ["v", "y"]],
        ["cmp", "eq", ["v", "y"], ["ra", "x"]],
        ["cmp", "ne", ["ra", "x"], ["v", "y"]],
        ["cmp", "lt", ["a", "x", "a"], ["a", "y", "a"]],
        ["cmp", "ge", ["a", "y", "b"], ["a", "x", "a"]],
        ["cmp", "eq", ["a", "x", "b"], ["a", "y", "b"]],
        ["cmp", "gt", ["r", "x", "a"], ["a", "y", "b"]],
    ]


def single_leaves(v):
    return [
        ["cmp", "gt", ["a", v, "a"], ["lit", 1]],
        ["cmp", "le", ["a", v, "b"], ["a", v, "c"]],
        ["pf", v],
    ]


def selections2():
    return [[["v", "x"], ["v", "y"]], [["v", "y"], ["v", "x"]], [["v", "x"]], [["v", "y"]],
            [["v", "x"], ["a", "y", "a"]], [["a", "x", "c"], ["v", "y"]], [["a", "x", "a"], ["a", "y", "b"]]]


BASE2 = dict(pools={"X": 2, "Y": 2}, refs={"X": "Y"}, vars={"x": "X", "y": "Y"})


def shapes(tier, seed):
    rnd = random.Random(seed)
    out = []
    J, SX, SY = xy_leaves(), single_leaves("x"), single_leaves("y")

    def add(cond, select, base=BASE2, **kw):
        d = dict(base)
        d.update(cond=cond, select=select)
        d.update(kw)
        out.append(d)
    sels = selections2()
    # one leaf: every join leaf x every selection
    for l in J:
        for s in sels:
            add(l, s)
        add(["not", l], sels[0])
    # a condition mentioning only one of the variables / none (free combination)
    for s in sels:
        add(SX[0], s)
        add(SY[1], s)
        add(None, s)
    # an expression over a selected variable must stay correlated with it, whatever binds the variable
    for c in (None, SY[0], SX[0], J[3]):
        add(c, [["v", "x"], ["a", "x", "a"]])
        add(c, [["a", "x", "b"], ["v", "x"]])
        add(c, [["v", "y"], ["v", "x"], ["a", "x", "a"]])
        add(c, [["a", "x", "a"]])
        add(c, [["a", "x", "a"], ["a", "x", "b"]])
    add(SX[0], [["v", "x"]], form="entity")
    add(J[0], [["v", "y"]], form="entity")
    # two leaves: join x join, join x single, single x single over different variables (ElseIf vs Union)
    pairs = []
    for l1 in J[:5]:
        for l2 in J[:5]:
            if l1 is not l2:
                pairs.append((l1, l2))
        for l2 in SX[:2] + SY[:2]:
            pairs.append((l1, l2))
            pairs.append((l2, l1))
    for l1 in SX[:2]:
        for l2 in SY[:2]:
            pairs.append((l1, l2))
            pairs.append((l2, l1))
    sel_q = [sels[0], sels[1], sels[2], sels[4]]
    for (l1, l2) in pairs:
        for op in ("and", "or"):
            for s in (sel_q if tier == "thorough" else [sel_q[0], rnd.choice(sel_q[1:])]):
                add([op, l1, l2], s)
            add(["not", [op, l1, l2]], sels[0])
        add(["or", ["not", l1], l2], sels[0])
    # an EMPTY domain (while instances of that type exist elsewhere): no row, whatever is enumerated first or how often
    EMPTY = dict(pools={"X": 2, "Y": 0}, vars={"x": "X", "y": "Y"}, outside={"Other": 2, "Item": 1})
    for c in (J[3], J[5], SX[0], SY[0], None, ["or", SX[0], SY[0]], ["and", SX[0], J[3]]):
        for s in ([["v", "x"], ["v", "y"]], [["v", "y"], ["v", "x"]], [["v", "y"]]):
            add(c, s, base=EMPTY)
    add(SY[0], [["v", "y"]], base=dict(pools={"Y": 0, "X": 2}, vars={"y": "Y", "x": "X"}, outside={"Other": 2}), form="entity")
    # declaration order of the variables swapped
    for l in J[:4]:
        d = dict(pools={"X": 2, "Y": 2}, refs={"X": "Y"}, vars={"y": "Y", "x": "X"}, cond=l, select=sels[0])
        out.append(d)
    # self-join: two variables over the same list
    SJ = dict(pools={"X": 3}, vars={"x": "X", "z": "X"})
    for l in [["cmp", "lt", ["a", "x", "a"], ["a", "z", "a"]], ["cmp", "eq", ["a", "x", "b"], ["a", "z", "c"]],
              ["cmp", "ne", ["v", "x"], ["v", "z"]],
              ["and", ["cmp", "ne", ["v", "x"], ["v", "z"]], ["cmp", "eq", ["a", "x", "a"], ["a", "z", "a"]]]]:
        for s in ([["v", "x"], ["v", "z"]], [["v", "z"]], [["v", "z"], ["v", "x"]]):
            add(l, s, base=SJ)
    # three variables: the suite's drawer pattern (three equalities through one connection variable) and chains
    B3 = dict(pools={"X": 2, "Y": 2, "W": 2}, classes={"W": "Other"}, refs={"X": "Y"},
              vars={"x": "X", "y": "Y", "w": "W"})
    c3 = [
        ["and", ["cmp", "eq", ["ra", "x"], ["v", "y"]], ["cmp", "lt", ["a", "y", "a"], ["a", "w", "a"]]],
        ["and", ["cmp", "lt", ["a", "x", "a"], ["a", "y", "a"]], ["cmp", "lt", ["a", "y", "a"], ["a", "w", "a"]]],
        ["or", ["cmp", "eq", ["ra", "x"], ["v", "y"]], ["cmp", "gt", ["a", "w", "b"], ["lit", 0]]],
        ["and", ["cmp", "eq", ["a", "x", "a"], ["a", "y", "a"]],
         ["or", ["cmp", "eq", ["a", "w", "a"], ["a", "x", "a"]], ["cmp", "gt", ["a", "w", "b"], ["a", "y", "b"]]]],
        ["cmp", "eq", ["ra", "x"], ["v", "y"]],
    ]
    eq3 = lambda a, b, f="a": ["cmp", "eq", ["a", a, f], ["a", b, f]]
    c3 += [["and", ["or", eq3("x", "y"), eq3("x", "w", "b")], ["cmp", "le", ["a", "y", "b"], ["a", "w", "b"]]],
           ["and", ["or", eq3("x", "w"), eq3("x", "y", "b")], ["cmp", "le", ["a", "w", "c"], ["a", "y", "c"]]],
           ["and", eq3("x", "y"), eq3("y", "w", "b")],
           ["or", ["and", eq3("x", "y"), eq3("x", "w")], ["cmp", "gt", ["a", "y", "b"], ["a", "w", "b"]]]]
    s3 = [[["v", "x"], ["v", "y"], ["v", "w"]], [["v", "w"], ["v", "x"]], [["v", "y"]], [["v", "w"], ["v", "y"], ["v", "x"]]]
    for c in c3:
        for s in (s3 if tier == "thorough" else s3[:2]):
            add(c, s, base=B3)
    if tier == "thorough":
        for base in (dict(pools={"X": 3, "Y": 2}, refs={"X": "Y"}, vars={"x": "X", "y": "Y"}),
                     dict(pools={"X": 2, "Y": 3}, refs={"X": "Y"}, vars={"x": "X", "y": "Y"})):
            for (l1, l2) in pairs[::3]:
                for op in ("and", "or"):
                    add([op, l1, l2], sels[0], base=base)
        leaves = J[:5] + SX[:2] + SY[:2]
        skels = list(S.tree_skeletons(3))
        for _ in range(500):
            c = S.fill(rnd.choice(skels), [rnd.choice(leaves) for _ in range(3)])
            c = rnd.choice(S.negation_variants(c))
            add(c, rnd.choice(sels))
    seen, uniq = set(), []
    for s in out:
        k = json.dumps(s, sort_keys=True)
        if k not in seen:
            seen.add(k)
            uniq.append(s)
    return uniq


# ------------------------------------------------------------------------------------------ twins
def _twin_zip_instead_of_product():
    """Unbound selected variables completed pairwise (zip) instead of by Cartesian product."""
    from entity_query_language import symbolic as sym
    from copy import copy

    def bind(self, selected_vars, bindings):
        gens = [list(v._evaluate__(copy(bindings))) for v in selected_vars]
        for combo in zip(*gens):
            new = copy(bindings)
            for val in combo:
                new.update({k: x for k, x in val.items() if k not in bindings})
            yield new
    sym.QueryObjectDescriptor._bind_selected_variables_ = bind


def _twin_uncorrelated_selection():
    """The defect repaired by 'fix: keep selected expressions correlated ...', re-introduced."""
    from entity_query_language import symbolic as sym
    from copy import copy

    def bind(self, selected_vars, bindings):
        gens = {v: v._evaluate__(copy(bindings)) for v in selected_vars}
        for sol in sym.generate_combinations(gens):
            new = copy(bindings)
            new.update({v._id_: sol[v][v._id_] for v in selected_vars})
            yield new
    sym.QueryObjectDescriptor._bind_selected_variables_ = bind


def _twin_row_lookup_ignores_expression():
    from entity_query_language import symbolic as sym

    def getitem(self, key):
        return next(iter(self.data.values())).value
    sym.UnificationDict.__getitem__ = getitem


def _twin_operand_order_always_left_first():
    """Negative twin: by reading, the operand evaluation order only changes enumeration order, not the row set."""
    from entity_query_language import symbolic as sym
    sym.Comparator.get_first_second_operands = lambda self, sources: (self.left, self.right)


def _twin_dedup_on_all_vars():
    from entity_query_language import symbolic as sym

    def dup(self, output):
        parent_id = self._parent_._id_
        seen = self._seen_parent_values_by_parent_.setdefault(parent_id, {True: sym.SeenSet(), False: sym.SeenSet()})[not self._is_false_]
        key = {k: v for k, v in output.items() if isinstance(self._id_expression_map_.get(k), sym.Variable)
               and not isinstance(self._id_expression_map_.get(k), sym.Literal)}
        key = dict(list(key.items())[:1])
        if seen.check(key):
            return True
        seen.add(key)
        return False
    sym.SymbolicExpression._is_duplicate_output_ = dup
    sym.Union._is_duplicate_output_ = dup


_J = xy_leaves()
TWINS = {
    "cartesian_completion_uses_zip": dict(apply=_twin_zip_instead_of_product,
                                          specs=lambda t: [dict(BASE2, cond=single_leaves("x")[0], select=[["v", "x"], ["v", "y"]])]),
    "selected_expressions_uncorrelated": dict(apply=_twin_uncorrelated_selection,
                                              specs=lambda t: [dict(BASE2, cond=None, select=[["v", "x"], ["a", "x", "a"]])]),
    "row_lookup_ignores_the_selected_expression": dict(apply=_twin_row_lookup_ignores_expression,
                                                       specs=lambda t: [dict(BASE2, cond=_J[3], select=[["v", "x"], ["a", "y", "a"]])]),
    "NEG_operand_order_always_left_first": dict(apply=_twin_operand_order_always_left_first, expect="survive",
                                                specs=lambda t: [dict(BASE2, cond=c, select=[["v", "x"], ["v", "y"]])
                                                                 for c in (_J[1], ["and", _J[3], _J[1]], ["or", _J[0], _J[4]])]),
    "dedup_keyed_on_first_variable_only": dict(apply=_twin_dedup_on_all_vars,
                                               specs=lambda t: [dict(BASE2, cond=["or", single_leaves("x")[0], single_leaves("y")[0]],
                                                                     select=[["v", "x"], ["v", "y"]])]),
}
