#!/bin/bash
# usage: try_seed.sh <seed id> <prop> <shape filter substring> : runs the matching shapes in-process on the unchanged tree and on
# a scratch worktree with the seed's patch applied
cd "$(dirname "$0")/.."
seed=$1; prop=$2; flt=$3
wt=/tmp/wt_try_$$
echo "--- base"; .venv/bin/python tools/run_specs.py $prop "$flt" 2>&1 | tail -${4:-2} | cut -c1-260
git -C /repo worktree add -q --detach $wt HEAD && git -C $wt apply /verif/seeded/$seed/patch.diff && { echo "--- with $seed"; EQL_SRC=$wt/src .venv/bin/python tools/run_specs.py $prop "$flt" 2>&1 | tail -${4:-2} | cut -c1-260; }
git -C /repo worktree remove --force $wt
