"""C04 - a query's answer does not depend on what was evaluated before it."""
from __future__ import annotations

import itertools
import json
import random

from symex.case import Case
from symex import eqlshapes as S
from symex import querycase as Q
from symex.eqlshapes import an, entity, set_of, let, symbolic_mode, Item, Other, FAULT, UserFault
from entity_query_language import for_all
from entity_query_language.cache_data import enable_caching, disable_caching

ASSUMPTIONS = [
    "two queries q1, q2 are built over the SAME Variable objects; the history applies FULL / TAKE(k) / DROP(k) / FAULT(j) to "
    "them; k (results taken before close/drop) and j (the call of the user predicate that raises) are SYMBOLIC",
    "dropping the last reference finalises an iterator (CPython reference counting)",
    "every complete evaluation in the history (and the final one) must equal the reference AND a freshly built copy "
    "evaluated once on the same data; row sets are compared (multiplicity is not part of this property)",
    "domains listing one object twice: the statement fixes no count, only that first and later evaluations agree",
    "'never modifies the user's objects': every attribute of every pool object is the same object afterwards and list / tuple / "
    "dict / set attributes hold the same elements (by identity, in order)",
]
BOUNDS = {"quick": dict(prior_ops="H<=2", objects="3 (2x2 for the join template)", templates=10,
                        collections="2 parents x 2 elements (list / tuple), queries over concatenate / flatten / in_(x, concatenate)"),
          "thorough": dict(prior_ops="H<=3", objects="3", templates=7, caching="on and off",
                           collections="as quick, all histories H<=2")}
LIMITS = {"quick": dict(max_paths=20000, max_wall=150), "thorough": dict(max_paths=300000, max_wall=900)}
FIDELITY_EVERY = {"quick": 4, "thorough": 4}
WALL_BUDGET = {"quick": 540, "thorough": 3400}

FF = ["ff", "x"]
LT = ["cmp", "lt", ["a", "x", "a"], ["a", "x", "b"]]
TEMPLATES = {
    "and": dict(c1=["and", FF, LT], c2=["cmp", "gt", ["a", "x", "b"], ["lit", 1]]),
    "or": dict(c1=["or", FF, ["cmp", "lt", ["a", "x", "a"], ["lit", -1]]], c2=LT),
    "or2": dict(c1=["or", LT, FF], c2=["not", FF]),
    "not": dict(c1=["not", ["and", FF, LT]], c2=["or", FF, LT]),
    "plain": dict(c1=FF, c2=["and", LT, FF]),
    "join": dict(c1=["and", ["cmp", "lt", ["a", "x", "a"], ["a", "y", "a"]], FF], c2=["cmp", "eq", ["a", "x", "b"], ["a", "y", "b"]],
                 two=True),
    # the right operand of the conjunction introduces the second variable (one left binding has several right values)
    "join2": dict(c1=["and", FF, ["cmp", "le", ["a", "x", "a"], ["a", "y", "a"]]],
                  c2=["and", ["cmp", "gt", ["a", "x", "b"], ["lit", 0]], ["cmp", "ne", ["a", "x", "b"], ["a", "y", "b"]]], two=True),
    "forall": dict(c1=FF, c2=LT, forall=["cmp", "gt", ["a", "x", "b"], ["a", "u", "a"]]),
    # the same @predicate function applied to DIFFERENT values of the same objects in the two queries
    "pv": dict(c1=["and", ["pv", ["a", "x", "a"], 0], FF], c2=["pv", ["a", "x", "b"], 0]),
    "pv2": dict(c1=["pv", ["c", "x", 0], 1], c2=["or", ["pv", ["a", "x", "c"], 1], FF]),
}


class C04(Case):
    prop = "C04"

    def _build_pair(self, pools, tpl, domain_kind):
        """q1, q2 over the same variables; returns (queries, selected exprs, spec-for-rows)."""
        X = pools["X"]
        if domain_kind == "dup":
            dom = [X[0], X[1], X[0]] + X[2:]
        elif domain_kind == "tuple":
            dom = tuple(X)
        elif domain_kind == "gen":
            dom = (o for o in X)
        else:
            dom = list(X)
        self._user_domain = dom
        self._user_domain_copy = list(dom) if domain_kind != "gen" else None
        with symbolic_mode():
            x = let(Item, domain=dom)
            V = {"x": x}
            sel = [x]
            if tpl.get("two"):
                V["y"] = let(Other, domain=pools["Y"])
                sel = [x, V["y"]]
            if tpl.get("forall"):
                V["u"] = let(Other, domain=pools["U"])
            qs = []
            for c in (tpl["c1"], tpl["c2"]):
                conds = [S.build(c, V)]
                if tpl.get("forall") and c is tpl["c1"]:
                    conds.append(for_all(V["u"], S.build(tpl["forall"], V)))
                qs.append(an(set_of(sel, *conds)))
        return qs, sel

    def run(self, mk):
        sp = self.spec
        tpl = TEMPLATES[sp["template"]]
        pspec = self._pspec()
        pools = Q.make_pools(mk, dict(pspec, cond=["and", tpl["c1"], tpl["c2"]] + ([tpl["forall"]] if tpl.get("forall") else [])))
        data = dict(pools=pools, evals=[])
        FAULT.update(armed=False, j=None, count=0, raised=0)
        if sp.get("cache") == "off":
            disable_caching()
        events = []
        try:
            qs, sel = self._build_pair(pools, tpl, sp.get("domain", "list"))
            dict_keys = deep_snapshot([o for p in pools.values() for o in p])
            for t, (op, qi) in enumerate(sp["history"] + [["FULL", sp.get("final", 0)]]):
                q = qs[qi]
                if op == "FULL":
                    rows = Q.rows_of(list(q.evaluate()), sel, pspec, pools)
                    data["evals"].append((t, qi, rows))
                    events.append(["FULL", qi, Q.view(rows, pspec)])
                elif op in ("TAKE", "DROP"):
                    k = mk.intrange("k%d" % t, 0, 4)
                    it = q.evaluate()
                    taken = 0
                    while not (k == taken):
                        try:
                            next(it)
                        except StopIteration:
                            break
                        taken += 1
                    if op == "TAKE":
                        it.close()
                    it = None
                    events.append([op, qi, taken])
                elif op == "FAULT":
                    FAULT.update(armed=True, j=mk.intrange("j%d" % t, 1, 8), count=0)
                    try:
                        n = len(list(q.evaluate()))
                        events.append(["FAULT", qi, "completed", n])
                    except UserFault:
                        events.append(["FAULT", qi, "raised"])
                    finally:
                        FAULT.update(armed=False)
            # a freshly built copy of the final query, evaluated once on the same data
            fresh_qs, fresh_sel = self._build_pair(pools, tpl, "list")
            frows = Q.rows_of(list(fresh_qs[sp.get("final", 0)].evaluate()), fresh_sel, pspec, pools)
            data["fresh"] = frows
            events.append(["FRESH", Q.view(frows, pspec)])
            if sp.get("domain", "list") in ("list", "dup", "tuple"):
                same = (list(self._user_domain) == self._user_domain_copy and
                        all(a is b for a, b in zip(self._user_domain, self._user_domain_copy)))
                events.append(["DOMAIN_UNCHANGED", bool(same)])
            keys_now = deep_snapshot([o for p in pools.values() for o in p])
            events.append(["OBJECTS_UNCHANGED", keys_now == dict_keys])
        except Exception as e:
            events.append(["exc", type(e).__name__, str(e)[:200]])
        finally:
            FAULT.update(armed=False)
            enable_caching()
        return data, events

    def _pspec(self):
        tpl = TEMPLATES[self.spec["template"]]
        n = self.spec.get("n", 3)
        if tpl.get("two"):
            return dict(pools={"X": 2, "Y": 2}, vars={"x": "X", "y": "Y"}, select=[["v", "x"], ["v", "y"]])
        if tpl.get("forall"):
            return dict(pools={"X": n, "U": 2}, classes={"U": "Other"}, vars={"x": "X"}, select=[["v", "x"]])
        return dict(pools={"X": n}, vars={"x": "X"}, select=[["v", "x"]])

    def obligations(self, alg, data, events):
        sp = self.spec
        tpl = TEMPLATES[sp["template"]]
        pspec = self._pspec()
        pools = data["pools"]
        allobjs = [o for p in pools.values() for o in p]
        obs = []
        for ev in events:
            if ev[0] == "exc":
                obs.append(("no_exception:%s:%s" % (ev[1], ev[2][:80]), alg.const(False)))
            if ev[0] in ("DOMAIN_UNCHANGED", "OBJECTS_UNCHANGED"):
                obs.append((ev[0].lower(), alg.const(ev[1])))

        def sat_for(qi):
            c = tpl["c1"] if qi == 0 else tpl["c2"]

            def sat(sigma):
                env = Q.env_of(sigma, pspec, pools)
                t = Q.holds(alg, c, env, allobjs)
                if tpl.get("forall") and qi == 0:
                    ts = []
                    for uo in pools["U"]:
                        e2 = dict(env)
                        e2["u"] = uo
                        ts.append(Q.holds(alg, tpl["forall"], e2, allobjs))
                    t = alg.and_(t, *ts)
                return t
            return sat
        for (t, qi, rows) in data["evals"]:
            obs += Q.row_obligations(alg, rows, pspec, pools, sat_for(qi), demand_no_dup=False, prefix="step%d:q%d:" % (t, qi + 1))
        if "fresh" in data:
            obs += Q.row_obligations(alg, data["fresh"], pspec, pools, sat_for(sp.get("final", 0)), demand_no_dup=False,
                                     prefix="fresh:")
        if sp.get("domain") == "dup" and len(data["evals"]) >= 2:
            # same query evaluated completely more than once: same behaviour (as multisets) every time
            per_q = {}
            for (t, qi, rows) in data["evals"]:
                per_q.setdefault(qi, []).append(sorted(rows))
            for qi, lst in per_q.items():
                obs.append(("duplicate_domain_same_on_every_evaluation:q%d" % (qi + 1), alg.const(all(r == lst[0] for r in lst))))
        if not obs:
            obs.append(("reached", alg.const(True)))
        return obs


@__import__("entity_query_language").symbol
@__import__("dataclasses").dataclass(eq=False)
class RItem:
    a: object = 0


@__import__("entity_query_language").symbol
@__import__("dataclasses").dataclass(eq=False)
class RReg:
    v: object = 0


class C04Registry(Case):
    """Scenario: a rule-mode variable constrained by keyword and ranging over the registry (w = RReg(v=x.a), no From) joined
    with x; the query is evaluated, abandoned after k results (k symbolic), and evaluated again."""
    prop = "C04"

    def run(self, mk):
        from entity_query_language import rule_mode
        sp = self.spec
        items = [RItem(a=mk.int("x_%d.a" % i)) for i in range(3)]
        regs = [RReg(v=mk.int("w_%d.v" % j)) for j in range(2)]
        data = dict(items=items, regs=regs, evals=[])
        events = []
        try:
            if sp.get("warmup"):
                # history over an UNRELATED query (own variable, own objects): it must not influence the registry query
                others = tuple(Item(a=1, name="o%d" % i) for i in range(3))
                with symbolic_mode():
                    o = let(Item, domain=others)
                    q0 = an(set_of([o], S.build(FF, {"x": o})))
                for wop in sp["warmup"]:
                    if wop == "TAKE":
                        it0 = q0.evaluate()
                        next(it0)
                        it0.close()
                    else:
                        list(q0.evaluate())
            with rule_mode():
                x = let(RItem, domain=items)
                w = RReg(v=x.a)
                q = an(set_of([x, w]))

            def rows():
                out = []
                for r in q.evaluate():
                    out.append((next((i for i, o in enumerate(items) if o is r[x]), -1),
                                next((j for j, o in enumerate(regs) if o is r[w]), -1)))
                return out
            for t, op in enumerate(sp["history"] + ["FULL"]):
                if op == "FULL":
                    r = rows()
                    data["evals"].append(r)
                    events.append(["FULL", [list(p) for p in r]])
                else:
                    k = mk.intrange("k%d" % t, 0, 3)
                    it = q.evaluate()
                    taken = 0
                    while not (k == taken):
                        try:
                            next(it)
                        except StopIteration:
                            break
                        taken += 1
                    if op == "TAKE":
                        it.close()
                    it = None
                    events.append([op, taken])
        except Exception as e:
            events.append(["exc", type(e).__name__, str(e)[:200]])
        return data, events

    def obligations(self, alg, data, events):
        obs = []
        for ev in events:
            if ev[0] == "exc":
                obs.append(("no_exception:%s:%s" % (ev[1], ev[2][:80]), alg.const(False)))
        for n, rows in enumerate(data["evals"]):
            obs.append(("eval%d:cells" % n, alg.const(all(i >= 0 and j >= 0 for i, j in rows))))
            for i, xo in enumerate(data["items"]):
                for j, wo in enumerate(data["regs"]):
                    obs.append(("eval%d:pair_x%d_w%d" % (n, i, j), alg.iff(alg.const((i, j) in rows), alg.cmp("eq", wo.v, xo.a))))
        return obs or [("reached", alg.const(True))]


def deep_snapshot(objs):
    """identity of every attribute value and, for list/tuple/dict/set attributes, identity of their elements"""
    snap = []
    for o in objs:
        row = {}
        for k, v in vars(o).items():
            inner = None
            if isinstance(v, (list, tuple)):
                inner = [id(e) for e in v]
            elif isinstance(v, dict):
                inner = [(id(a), id(b)) for a, b in v.items()]
            elif isinstance(v, (set, frozenset)):
                inner = sorted(id(e) for e in v)
            row[k] = (id(v), inner)
        snap.append(row)
    return snap


class C04Collections(Case):
    """Scenario: queries that UNNEST / CONCATENATE list attributes of user objects (real Python lists), sharing the parent
    variable: q1 = concatenate(p.items) as a value, q2 = rows (p, e) with e = flatten(p.items) and e.w > 0, q3 = elements of an
    outer domain that are in concatenate(p.items).  History as in the main scenario; the user's lists must stay as built."""
    prop = "C04"

    def run(self, mk):
        from entity_query_language import flatten, concatenate, in_
        from props.c16 import Par, Elem
        sp = self.spec
        elems = [Elem(w=mk.int("e%d.w" % j), name="e%d" % j) for j in range(4)]
        kinds = sp.get("inner", ["list", "list"])
        chunks = [[elems[0], elems[1]], [elems[2], elems[3]]]
        parents = [Par(k=i, items=(list(c) if kd == "list" else tuple(c)), name="p%d" % i)
                   for i, (c, kd) in enumerate(zip(chunks, kinds))]
        data = dict(parents=parents, elems=elems, evals=[])
        events = []
        snap0 = deep_snapshot(parents + elems)
        try:
            with symbolic_mode():
                p = let(Par, domain=parents)
                conc = concatenate(p.items)
                e = flatten(p.items)
                x = let(Elem, domain=list(elems))
                qs = [an(entity(conc)), an(set_of([p, e], e.w > 0)), an(entity(x, in_(x, conc), x.w > 0))]

            def view(qi, res):
                ix = lambda o: next((j for j, c in enumerate(elems) if c is o), -1)
                if qi == 0:
                    return [[ix(o) for o in r] if isinstance(r, (list, tuple)) else ["notalist"] for r in res]
                if qi == 1:
                    return [[next((i for i, o in enumerate(parents) if o is r[p]), -1), ix(r[e])] for r in res]
                return [ix(o) for o in res]
            for t, (op, qi) in enumerate(sp["history"] + [["FULL", sp.get("final", 0)]]):
                q = qs[qi]
                if op == "FULL":
                    v = view(qi, list(q.evaluate()))
                    data["evals"].append((t, qi, v))
                    events.append(["FULL", qi, v])
                else:
                    k = mk.intrange("k%d" % t, 0, 3)
                    it = q.evaluate()
                    taken = 0
                    while not (k == taken):
                        try:
                            next(it)
                        except StopIteration:
                            break
                        taken += 1
                    if op == "TAKE":
                        it.close()
                    it = None
                    events.append([op, qi, taken])
            events.append(["OBJECTS_UNCHANGED", deep_snapshot(parents + elems) == snap0])
        except Exception as ex:
            events.append(["exc", type(ex).__name__, str(ex)[:200]])
        return data, events

    def obligations(self, alg, data, events):
        obs = []
        elems = data["elems"]
        for ev in events:
            if ev[0] == "exc":
                obs.append(("no_exception:%s:%s" % (ev[1], ev[2][:80]), alg.const(False)))
            if ev[0] == "OBJECTS_UNCHANGED":
                obs.append(("user_objects_and_their_collections_unchanged", alg.const(ev[1])))
        for (t, qi, v) in data["evals"]:
            pre = "step%d:q%d:" % (t, qi + 1)
            if qi == 0:
                obs.append((pre + "one_value_the_ordered_concatenation", alg.const(v == [[0, 1, 2, 3]])))
            elif qi == 1:
                obs.append((pre + "cells", alg.const(all(i >= 0 and j >= 0 for i, j in v))))
                for j, eo in enumerate(elems):
                    for i in range(2):
                        want = alg.cmp("gt", eo.w, 0) if j // 2 == i else alg.const(False)
                        obs.append((pre + "pair_p%d_e%d" % (i, j), alg.iff(alg.const([i, j] in v), want)))
            else:
                obs.append((pre + "cells", alg.const(all(j >= 0 for j in v))))
                for j, eo in enumerate(elems):
                    obs.append((pre + "elem_%d" % j, alg.iff(alg.const(j in v), alg.cmp("gt", eo.w, 0))))
        return obs or [("reached", alg.const(True))]


class C04Rule(Case):
    """Scenario: a rule tree (the C12 family) evaluated after the same query object was abandoned after k conclusions (k symbolic),
    dropped, or evaluated completely: every complete evaluation must select the conclusions the tree prescribes."""
    prop = "C04"

    def run(self, mk):
        from props import c12
        sp = self.spec
        inner = c12.C12(sp["rule"])
        self._inner = inner
        data = inner.prepare(mk)
        events, evals = [], []
        try:
            q = inner.build(data["items"])
            for t, op in enumerate(sp["history"] + ["FULL"]):
                if op == "FULL":
                    v = inner._view(list(q.evaluate()), data["items"])
                    evals.append(v)
                    events.append(["FULL", v])
                else:
                    k = mk.intrange("k%d" % t, 0, 3)
                    it = q.evaluate()
                    taken = 0
                    while not (k == taken):
                        try:
                            next(it)
                        except StopIteration:
                            break
                        taken += 1
                    if op == "TAKE":
                        it.close()
                    it = None
                    events.append([op, taken])
        except Exception as ex:
            events.append(["exc", type(ex).__name__, str(ex)[:200]])
        data["evals"] = evals
        return data, events

    def obligations(self, alg, data, events):
        obs = []
        for ev in events:
            if ev[0] == "exc":
                obs.append(("no_exception:%s:%s" % (ev[1], ev[2][:80]), alg.const(False)))
        for n, v in enumerate(data["evals"]):
            for lbl, t in self._inner.obligations(alg, data, v):
                obs.append(("eval%d:%s" % (n, lbl), t))
        return obs or [("reached", alg.const(True))]


def make_case(spec):
    if "rule" in spec:
        return C04Rule(spec)
    if spec.get("scenario") == "collections":
        return C04Collections(spec)
    if spec.get("scenario") == "registry_keyword_variable":
        return C04Registry(spec)
    return C04(spec)


OPS = [["FULL", 0], ["FULL", 1], ["TAKE", 0], ["TAKE", 1], ["DROP", 0], ["FAULT", 0], ["FAULT", 1]]


def shapes(tier, seed):
    rnd = random.Random(seed)
    out = []
    tnames = list(TEMPLATES)
    for tn in tnames:
        out.append(dict(template=tn, history=[], final=0))
        for op in OPS:
            for fin in (0, 1):
                out.append(dict(template=tn, history=[op], final=fin))
        pairs = list(itertools.product(OPS, OPS))
        if tier == "quick":
            pairs = [p for p in pairs if (p[0][0] != "FULL" or p[1][0] != "FULL")]
            pairs = rnd.sample(pairs, 10)
        for a, b in pairs:
            out.append(dict(template=tn, history=[a, b], final=rnd.choice([0, 1]) if tier == "quick" else 0))
            if tier == "thorough":
                out.append(dict(template=tn, history=[a, b], final=1))
    # domain variants
    for tn in ("and", "or", "plain"):
        for dom in ("dup", "tuple", "gen"):
            out.append(dict(template=tn, history=[["FULL", 0]], final=0, domain=dom))
            out.append(dict(template=tn, history=[["TAKE", 0]], final=0, domain=dom))
            out.append(dict(template=tn, history=[["FULL", 1], ["FULL", 0]], final=0, domain=dom))
            out.append(dict(template=tn, history=[["FAULT", 0]], final=0, domain=dom))
    for h in ([], ["FULL"], ["TAKE"], ["DROP"], ["TAKE", "FULL"], ["FULL", "TAKE"]):
        out.append(dict(scenario="registry_keyword_variable", history=h))
    for wu in (["FULL"], ["TAKE"], ["TAKE", "FULL"]):
        out.append(dict(scenario="registry_keyword_variable", history=[], warmup=wu))
        out.append(dict(scenario="registry_keyword_variable", history=["TAKE"], warmup=wu))
    cops = [[o, qi] for o in ("FULL", "TAKE", "DROP") for qi in (0, 1, 2)]
    for fin in (0, 1, 2):
        out.append(dict(scenario="collections", history=[], final=fin))
        for op in cops:
            out.append(dict(scenario="collections", history=[op], final=fin))
    cpairs = list(itertools.product(cops, cops))
    for a, b in (cpairs if tier == "thorough" else rnd.sample(cpairs, 12)):
        out.append(dict(scenario="collections", history=[a, b], final=rnd.choice([0, 1, 2])))
    for inner in (["tuple", "list"], ["list", "tuple"]):
        for fin in (0, 1, 2):
            out.append(dict(scenario="collections", history=[["FULL", 0]], final=fin, inner=inner))
    # rule trees (every tree of the C12 grammar with <= 3 branches; pair-matching variants) after abandoned evaluations
    from props import c12
    for B in range(1, 4):
        for t in c12.all_trees(B):
            for h in (["TAKE"], ["DROP"], ["TAKE", "TAKE"], ["FULL", "TAKE"]):
                if tier == "thorough" or B >= 2 or h == ["TAKE"]:
                    out.append(dict(rule=dict(tree=t), history=h))
            if len(t) == 1:
                out.append(dict(rule=dict(tree=t, join=True), history=["TAKE"]))
    # caching disabled
    for tn in tnames:
        for op in (["TAKE", 0], ["FAULT", 0], ["DROP", 0]):
            out.append(dict(template=tn, history=[op], final=0, cache="off"))
    if tier == "thorough":
        triples = list(itertools.product(OPS, OPS, OPS))
        for tn in tnames:
            for tr in rnd.sample(triples, 40):
                out.append(dict(template=tn, history=list(tr), final=rnd.choice([0, 1]), cache=rnd.choice(["on", "off"])))
    seen, uniq = set(), []
    for s in out:
        k = json.dumps(s, sort_keys=True)
        if k not in seen:
            seen.add(k)
            uniq.append(s)
    return uniq


# ---------------------------------------------------------------------------------------------- twins
def _twin_no_reset_after_evaluation():
    from entity_query_language import symbolic as sym
    sym.An._reset_cache_ = lambda self: None


def _twin_cache_records_coverage_before_right_side_finished():
    from entity_query_language import cache_data as cd
    orig = cd.SeenSet.check

    def check(self, assignment):
        if self.all_seen:
            return True
        if not assignment:
            self.all_seen = True
            self.seen.append(assignment)
            return False
        return orig(self, assignment)
    cd.SeenSet.check = check


def _twin_domain_list_consumed():
    import importlib
    pm = importlib.import_module("entity_query_language.predicate")
    orig = pm.extract_selected_variable_and_expression

    def ext(symbolic_cls, domain=None, predicate_type=None, **kwargs):
        if domain is not None and isinstance(domain.domain, list) and len(domain.domain) > 1:
            domain.domain.reverse()
        return orig(symbolic_cls, domain, predicate_type, **kwargs)
    pm.extract_selected_variable_and_expression = ext


def _twin_concatenate_into_the_users_first_list():
    from entity_query_language import symbolic as sym
    orig = sym.Concatenate._evaluate__

    def ev(self, sources=None):
        for out in orig(self, sources):
            v = out[self._id_].value
            for cv in self._child_._evaluate__(sources or {}):
                first = cv[self._child_._id_].value
                if isinstance(first, list):
                    first.extend(v[len(first):])
                break
            yield out
    sym.Concatenate._evaluate__ = ev


TWINS = {
    "concatenation_built_in_the_users_first_list": dict(apply=_twin_concatenate_into_the_users_first_list,
                                                        specs=lambda t: [dict(scenario="collections", history=[["FULL", 0]], final=1)]),
    "no_reset_of_dedup_state_after_evaluation": dict(apply=_twin_no_reset_after_evaluation,
                                                     specs=lambda t: [dict(template="or2", history=[["FULL", 0]], final=0),
                                                                      dict(template="join", history=[["FULL", 0]], final=0)]),
    "coverage_recorded_when_asked": dict(apply=_twin_cache_records_coverage_before_right_side_finished,
                                         specs=lambda t: [dict(template="or", history=[["TAKE", 1]], final=1),
                                                          dict(template="and", history=[["TAKE", 1]], final=1)]),
    "user_domain_list_modified": dict(apply=_twin_domain_list_consumed,
                                      specs=lambda t: [dict(template="plain", history=[], final=0)]),
}
