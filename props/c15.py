"""C15 - a sub-query used inside a query means the same as its conditions inlined."""
from __future__ import annotations

import json
import random

from symex.case import Case
from symex import eqlshapes as S
from symex import querycase as Q
from symex.eqlshapes import an, the, entity, set_of, let, symbolic_mode, Item, Other, and_, or_
from symex.alg import OPS
from entity_query_language import From, MultipleSolutionFound, NoSolutionFound
from props.c02 import xy_leaves, single_leaves
from props.c13 import Holder

ASSUMPTIONS = [
    "composed trees: sub-queries an(entity(v, c)) / an(set_of(vs, c)) combined by & | and_ or_ with each other and with plain "
    "conditions; the composed query, the flattened query (conditions inlined) and the reference are compared in one path",
    "operand position: y.f <op> SUB.g with SUB = an(entity(x, c)) restricts x to c's solutions (exists-semantics); for "
    "SUB = the(entity(x, c)) the obligation is only stated when c has exactly one solution (otherwise the(...) may raise)",
    "correlated operand (corr): SUB = quant(entity(x, x.c == y.c, c)) mentions the enclosing variable y; solutions are counted per "
    "binding of y; a correlated the(...) is only written to the RIGHT of y's own operand (bound before it is reached)",
    "predicate-form argument: Holder(From(hs), p=an(entity(x, c)))",
]
BOUNDS = {"quick": dict(domains="3 / 2x2", sub_conditions="L<=2", connectives="& | and_ or_, nesting depth 2",
                        operands="uncorrelated and correlated sub-queries, an / the, alone and combined with | &"),
          "thorough": dict(domains="3 / 2x2 / 3x2", sub_conditions="L<=2, trees of 3 sub-queries")}
LIMITS = {"quick": dict(max_paths=10000, max_wall=90), "thorough": dict(max_paths=100000, max_wall=600)}
FIDELITY_EVERY = {"quick": 3, "thorough": 2}
WALL_BUDGET = {"quick": 420, "thorough": 3200}

ONE = dict(pools={"X": 3}, vars={"x": "X"}, select=[["v", "x"]])
TWO = dict(pools={"X": 2, "Y": 2}, refs={"X": "Y"}, vars={"x": "X", "y": "Y"}, select=[["v", "x"], ["v", "y"]])


def build_tree(t, V):
    k = t[0]
    if k == "sub":
        _, form, sel, cond = t
        if form == "entity":
            return an(entity(V[sel[0]], S.build(cond, V)))
        return an(set_of([V[v] for v in sel], S.build(cond, V)))
    if k == "plain":
        return S.build(t[1], V)
    if k == "&":
        return build_tree(t[1], V) & build_tree(t[2], V)
    if k == "|":
        return build_tree(t[1], V) | build_tree(t[2], V)
    if k == "and":
        return and_(*[build_tree(s, V) for s in t[1:]])
    if k == "or":
        return or_(*[build_tree(s, V) for s in t[1:]])
    raise ValueError(t)


def flatten_tree(t):
    k = t[0]
    if k == "sub":
        return t[3]
    if k == "plain":
        return t[1]
    if k in ("&", "and"):
        return ["and"] + [flatten_tree(s) for s in t[1:]]
    if k in ("|", "or"):
        return ["or"] + [flatten_tree(s) for s in t[1:]]
    raise ValueError(t)


class C15(Case):
    prop = "C15"

    def run(self, mk):
        sp = self.spec
        kind = sp["kind"]
        if kind == "conn":
            flat = flatten_tree(sp["tree"])
            pools = Q.make_pools(mk, dict(sp, cond=flat))
            data = dict(pools=pools, flat=flat)
            out = {}
            try:
                with symbolic_mode():
                    V = Q.declare_vars(sp, pools)
                    sel = [S.build_operand(o, V) for o in sp["select"]]
                    if sp.get("multi"):
                        conds = [build_tree(s, V) for s in sp["tree"][1:]]
                    else:
                        conds = [build_tree(sp["tree"], V)]
                    q = an(entity(sel[0], *conds)) if len(sel) == 1 else an(set_of(sel, *conds))
                rows = Q.rows_of(list(q.evaluate()), sel, dict(sp, form="entity" if len(sel) == 1 else "set_of"), pools)
                data["composed"] = rows
                out["composed"] = Q.view(rows, sp)
                if sp.get("twice"):
                    it = q.evaluate()     # an abandoned iteration, then a complete re-evaluation of the same query object
                    next(it, None)
                    it.close()
                    rows = Q.rows_of(list(q.evaluate()), sel, dict(sp, form="entity" if len(sel) == 1 else "set_of"), pools)
                    data["composed_again"] = rows
                    out["composed_again"] = Q.view(rows, sp)
                qf, self_, _ = Q.build_query(dict(sp, cond=flat, form="entity" if len(sp["select"]) == 1 else "set_of"), pools)
                rows = Q.rows_of(list(qf.evaluate()), self_, dict(sp, form="entity" if len(sp["select"]) == 1 else "set_of"), pools)
                data["flattened"] = rows
                out["flattened"] = Q.view(rows, sp)
            except Exception as e:
                return data, ["exc", type(e).__name__, str(e)[:200]]
            return data, out
        # operand / argument positions
        need = S.extras_needed(sp["c"])
        xs = S.make_objects(mk, Item, "x_", sp.get("nx", 3), extra=tuple(e for e in ("f", "t", "d", "s", "sl") if e in need))
        data = dict(xs=xs)
        try:
            if kind == "operand":
                ys = S.make_objects(mk, Other, "y_", sp.get("ny", 2))
                data["ys"] = ys
                with symbolic_mode():
                    x = let(Item, domain=xs)
                    y = let(Other, domain=ys)
                    quant = an if sp["quant"] == "an" else the
                    if sp.get("corr"):
                        # a CORRELATED sub-query: its condition mentions the enclosing query's variable
                        sub = quant(entity(x, x.c == y.c, S.build(sp["c"], {"x": x})))
                    else:
                        sub = quant(entity(x, S.build(sp["c"], {"x": x})))
                    lhs, rhs = getattr(y, sp["yf"]), getattr(sub, sp["xf"])
                    cond = OPS[sp["op"]](lhs, rhs) if sp.get("side", "r") == "r" else OPS[sp["op"]](rhs, lhs)
                    if sp.get("disj") == "r":
                        cond = cond | (y.c > 0)
                    elif sp.get("disj") == "l":
                        cond = (y.c > 0) | cond
                    elif sp.get("disj") == "and":
                        cond = (y.c > 0) & cond
                    q = an(entity(y, cond))
                try:
                    res = list(q.evaluate())
                    out = ["rows", [next((j for j, o in enumerate(ys) if o is r), -1) for r in res]]
                except (MultipleSolutionFound, NoSolutionFound) as e:
                    out = ["the_raised", type(e).__name__]
            else:  # argument
                hs = [Holder(p=mk.ref("h%d.p" % i, xs), k=mk.int("h%d.k" % i)) for i in range(2)]
                data["hs"] = hs
                with symbolic_mode():
                    x = let(Item, domain=xs)
                    sub = an(entity(x, S.build(sp["c"], {"x": x})))
                    q = an(entity(Holder(From(hs), p=sub)))
                res = list(q.evaluate())
                out = ["rows", [next((j for j, o in enumerate(hs) if o is r), -1) for r in res]]
        except Exception as e:
            return data, ["exc", type(e).__name__, str(e)[:200]]
        return data, out

    def obligations(self, alg, data, outcome):
        if isinstance(outcome, list) and outcome and outcome[0] == "exc":
            return [("no_exception:%s:%s" % (outcome[1], outcome[2][:80]), alg.const(False))]
        sp = self.spec
        kind = sp["kind"]
        if kind == "conn":
            pools = data["pools"]
            allobjs = [o for p in pools.values() for o in p]

            def sat(sigma):
                return Q.holds(alg, data["flat"], Q.env_of(sigma, sp, pools), allobjs)
            obs = []
            for form in [f for f in ("composed", "composed_again", "flattened") if f in data]:
                obs += Q.row_obligations(alg, data[form], sp, pools, sat, demand_no_dup=False, prefix=form + ":")
            return obs
        xs = data["xs"]
        cx = [S.holds(alg, sp["c"], {"x": xo}) for xo in xs]
        obs = []
        if kind == "operand":
            ys = data["ys"]
            if sp.get("corr"):
                sol = {j: [alg.and_(cx[i], alg.cmp("eq", xo.c, yo.c)) for i, xo in enumerate(xs)] for j, yo in enumerate(ys)}
            else:
                sol = {j: cx for j in range(len(ys))}
            if outcome[0] == "the_raised":
                if outcome[1] == "MultipleSolutionFound":
                    return [("the_raises_multiple_only_with_two_or_more", alg.or_(*[alg.int_ge(alg.count(sol[j]), 2) for j in sol]))]
                return [("the_raises_none_only_with_zero", alg.or_(*[alg.int_eq(alg.count(sol[j]), 0) for j in sol]))]
            rows = outcome[1]
            obs.append(("rows_are_outer_objects", alg.const(all(i >= 0 for i in rows))))
            guard = alg.const(True) if sp["quant"] == "an" else alg.and_(*[alg.int_eq(alg.count(sol[j]), 1) for j in sol])
            for j, yo in enumerate(ys):
                terms = []
                for i, xo in enumerate(xs):
                    a_, b_ = getattr(yo, sp["yf"]), getattr(xo, sp["xf"])
                    cmp = alg.cmp(sp["op"], a_, b_) if sp.get("side", "r") == "r" else alg.cmp(sp["op"], b_, a_)
                    terms.append(alg.and_(sol[j][i], cmp))
                want = alg.or_(*terms)
                if sp.get("disj") in ("l", "r"):
                    want = alg.or_(want, alg.cmp("gt", yo.c, 0))
                elif sp.get("disj") == "and":
                    want = alg.and_(want, alg.cmp("gt", yo.c, 0))
                obs.append(("outer_%d" % j, alg.implies(guard, alg.iff(alg.const(j in rows), want))))
            return obs
        hs = data["hs"]
        rows = outcome[1]
        obs.append(("rows_are_holders_each_once", alg.const(all(i >= 0 for i in rows) and len(rows) == len(set(rows)))))
        for j, h in enumerate(hs):
            want = alg.or_(*[alg.and_(alg.same(h.p, xo, xs), cx[i]) for i, xo in enumerate(xs)])
            obs.append(("holder_%d" % j, alg.iff(alg.const(j in rows), want)))
        return obs


def make_case(spec):
    return C15(spec)


def shapes(tier, seed):
    rnd = random.Random(seed)
    out = []
    core = S.core_leaves("x")
    subs = [["sub", "entity", ["x"], c] for c in core[:6]]
    subs2 = [["sub", "entity", ["x"], ["and", core[0], core[1]]], ["sub", "entity", ["x"], ["or", core[2], core[3]]],
             ["sub", "set_of", ["x"], core[0]], ["sub", "entity", ["x"], ["not", core[1]]]]
    plain = [["plain", c] for c in core[:3]]
    for op in ("&", "|", "and", "or"):
        for s1 in subs:
            for s2 in subs:
                if s1 is s2:
                    continue
                if tier == "thorough" or rnd.random() < 0.3:
                    out.append(dict(ONE, kind="conn", tree=[op, s1, s2]))
        for s1 in subs2:
            for s2 in subs[:3] + plain:
                out.append(dict(ONE, kind="conn", tree=[op, s1, s2]))
                if rnd.random() < 0.5:
                    out.append(dict(ONE, kind="conn", tree=[op, s2, s1]))
        for s1 in subs[:3]:
            for p_ in plain:
                out.append(dict(ONE, kind="conn", tree=[op, s1, p_]))
                out.append(dict(ONE, kind="conn", tree=[op, p_, s1]))
    # nesting depth 2 and several conditions passed to entity
    for (a_, b_, c_) in [(subs[0], subs[1], subs[2]), (subs[3], plain[0], subs[1]), (subs2[0], subs[4], plain[1])]:
        out.append(dict(ONE, kind="conn", tree=["&", ["|", a_, b_], c_]))
        out.append(dict(ONE, kind="conn", tree=["|", ["&", a_, b_], c_]))
        out.append(dict(ONE, kind="conn", tree=["|", a_, ["&", b_, c_]]))
        out.append(dict(ONE, kind="conn", tree=["and", a_, b_, c_], multi=True))
    # two variables
    J, SX, SY = xy_leaves(), single_leaves("x"), single_leaves("y")
    two_subs = [["sub", "set_of", ["x", "y"], J[0]], ["sub", "set_of", ["x", "y"], J[3]], ["sub", "entity", ["x"], SX[0]],
                ["sub", "entity", ["y"], SY[0]], ["sub", "set_of", ["y", "x"], J[4]]]
    for op in ("&", "|"):
        for s1 in two_subs:
            for s2 in two_subs:
                if s1 is not s2 and (tier == "thorough" or rnd.random() < 0.6):
                    out.append(dict(TWO, kind="conn", tree=[op, s1, s2]))
        out.append(dict(TWO, kind="conn", tree=[op, two_subs[0], ["plain", SY[0]]]))
        out.append(dict(TWO, kind="conn", tree=[op, ["plain", SX[0]], two_subs[1]]))
    # partial selection: a variable constrained inside a sub-query but selected nowhere
    for sel in ([["v", "x"]], [["v", "y"]]):
        P = dict(TWO, select=sel, kind="conn")
        sx = lambda c: ["sub", "entity", ["x"], c]
        for (a_, b_, c_) in [(J[3], SX[0], J[4]), (J[0], SX[1], J[3]), (J[4], SY[0], J[0]), (J[3], SY[1], J[5]),
                             (["and", J[5], SX[1]], SX[0], J[3]), (["and", J[3], SX[0]], SX[1], J[5]),
                             (["and", SX[0], J[5]], SY[0], J[4]), (["or", J[5], SX[1]], SX[0], J[3])]:
            out.append(dict(P, tree=["|", ["&", sx(a_), ["plain", b_]], ["plain", c_]]))
            out.append(dict(P, tree=["|", ["&", ["plain", b_], sx(a_)], ["plain", c_]]))
            out.append(dict(P, tree=["&", ["|", sx(a_), ["plain", b_]], ["plain", c_]]))
            out.append(dict(P, tree=["|", ["plain", c_], ["&", sx(a_), ["plain", b_]]]))
            out.append(dict(P, tree=["&", sx(a_), ["plain", c_]]))
            out.append(dict(P, tree=["|", sx(a_), ["plain", c_]]))
    # re-evaluation of the composed query (state inside nested quantifiers must be reset as well)
    extra = []
    for s_ in out:
        if s_.get("kind") == "conn" and rnd.random() < 0.2:
            extra.append(dict(s_, twice=True))
    out += extra
    # operand position
    for quant in ("an", "the"):
        for c in core[:4] + [["and", core[0], core[1]]]:
            for op in ("eq", "lt", "ne", "ge"):
                out.append(dict(kind="operand", quant=quant, c=c, op=op, yf="a", xf="b"))
            out.append(dict(kind="operand", quant=quant, c=c, op="gt", yf="b", xf="a", side="l"))
    # correlated sub-query as operand (its condition mentions the enclosing variable)
    for quant in ("an", "the"):
        for c in core[:2]:
            for op in ("eq", "lt", "ne"):
                out.append(dict(kind="operand", quant=quant, c=c, op=op, yf="a", xf="b", corr=True, ny=2 if quant == "an" else 3))
        if quant == "an":
            # (a correlated the(...) written to the LEFT of the variable it depends on is evaluated before that variable is
            # bound and counts solutions over both variables: what "exactly one" means there is not fixed by the statement)
            out.append(dict(kind="operand", quant=quant, c=core[0], op="gt", yf="b", xf="a", side="l", corr=True))
    # the comparison with a sub-query operand combined with another condition on the outer variable
    for d in ("l", "r", "and"):
        for op in ("eq", "lt"):
            out.append(dict(kind="operand", quant="an", c=core[0], op=op, yf="a", xf="b", disj=d))
        out.append(dict(kind="operand", quant="the", c=core[1], op="eq", yf="a", xf="b", disj=d))
    # predicate-form argument
    for c in core[:5] + [["or", core[0], core[1]]]:
        out.append(dict(kind="argument", c=c))
    seen, uniq = set(), []
    for s in out:
        k = json.dumps(s, sort_keys=True)
        if k not in seen:
            seen.add(k)
            uniq.append(s)
    return uniq


def _twin_subquery_ignored_in_and():
    """A quantifier used as a condition contributes nothing (always passes)."""
    from entity_query_language import symbolic as sym

    def ev(self, sources=None, yield_when_false=False):
        sources = sources or {}
        if self._parent_ is not None and isinstance(self._parent_, sym.LogicalOperator):
            self._is_false_ = False
            yield dict(sources)
            return
        yield from orig(self, sources, yield_when_false)
    orig = sym.An._evaluate__
    sym.An._evaluate__ = ev


def _twin_operand_not_restricted():
    """A sub-query used as an operand ranges over the whole domain of its variable."""
    from entity_query_language import symbolic as sym
    orig = sym.An._evaluate__

    def ev(self, sources=None, yield_when_false=False):
        if isinstance(self._parent_, sym.DomainMapping):
            for v in self._var_._evaluate__(sources or {}):
                v = dict(v)
                v[self._id_] = v[self._var_._id_]
                yield v
            return
        yield from orig(self, sources, yield_when_false)
    sym.An._evaluate__ = ev


_core = S.core_leaves("x")
TWINS = {
    "subquery_condition_always_passes": dict(apply=_twin_subquery_ignored_in_and,
                                             specs=lambda t: [dict(ONE, kind="conn", tree=["&", ["sub", "entity", ["x"], _core[0]], ["sub", "entity", ["x"], _core[1]]])]),
    "subquery_operand_not_restricted": dict(apply=_twin_operand_not_restricted,
                                            specs=lambda t: [dict(kind="operand", quant="an", c=_core[0], op="eq", yf="a", xf="b")]),
}
