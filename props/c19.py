"""C19 - values are not truth: falsy values are handled like any other value."""
from __future__ import annotations

import json
from dataclasses import dataclass
from typing import Any

import z3

from symex.case import Case
from symex.values import SEnum, SInt
from entity_query_language import (an, entity, set_of, let, symbolic_mode, rule_mode, infer, symbol, not_, in_, contains,
                                   flatten, concatenate, From, and_)

ALPHA = [0, 1, "", "a", (), (1,), None, False, True]
CONTAINERS = [(), (0,), (1,), ("",), (0, 1)]
LITLIST = [0, "", None]
NAMES = ["", "a", "7"]

ASSUMPTIONS = [
    "attribute values range over the alphabet %r (symbolic choice per object), container attributes over %r, plus unbounded "
    "integers including 0" % (ALPHA, CONTAINERS),
    "0 == False and 1 == True are Python facts and are part of the reference; what must not matter is truthiness of a value",
    "returned values are compared by identity (symbolic run) / by type and equality (plain replay)",
]
BOUNDS = {"quick": dict(domain_objects=2, alphabet=len(ALPHA), bare_values="flatten / concatenate of a non-collection attribute"), "thorough": dict(domain_objects=3, alphabet=len(ALPHA))}
LIMITS = {"quick": dict(max_paths=20000, max_wall=120), "thorough": dict(max_paths=200000, max_wall=600)}
WALL_BUDGET = {"quick": 420, "thorough": 3000}


@symbol
@dataclass(eq=False)
class VObj:
    v: Any = None
    w: Any = None
    c: Any = None
    d: Any = None
    n: Any = 0
    items: Any = None
    nm: Any = ""
    name: str = ""

    def get(self):
        return self.v

    def __repr__(self):
        return "VObj<%s>" % self.name


@symbol
@dataclass(eq=False)
class Out:
    src: Any
    val: Any


def pred_term(alg, val, pred):
    """Reference truth of pred(value) for an SEnum / plain value."""
    if alg.symbolic and isinstance(val, SEnum):
        hits = [val._z == j for j, a in enumerate(val._alts) if pred(a)]
        return z3.Or(*hits) if hits else z3.BoolVal(False)
    return alg.const(bool(pred(val)))


def pred2_term(alg, v1, v2, pred):
    if alg.symbolic and (isinstance(v1, SEnum) or isinstance(v2, SEnum)):
        a1 = list(enumerate(v1._alts)) if isinstance(v1, SEnum) else [(None, v1)]
        a2 = list(enumerate(v2._alts)) if isinstance(v2, SEnum) else [(None, v2)]
        hits = []
        for j1, x1 in a1:
            for j2, x2 in a2:
                if pred(x1, x2):
                    t = []
                    if j1 is not None:
                        t.append(v1._z == j1)
                    if j2 is not None:
                        t.append(v2._z == j2)
                    hits.append(z3.And(*t) if t else z3.BoolVal(True))
        return z3.Or(*hits) if hits else z3.BoolVal(False)
    return alg.const(bool(pred(v1, v2)))


def same_value(alg, got, exp):
    """The returned value IS the stored value."""
    if alg.symbolic and isinstance(exp, SEnum):
        return alg.const(got is exp)
    if alg.symbolic:
        return alg.const(type(got) is type(exp) and got == exp)
    return alg.const(type(got) is type(exp) and got == exp)


class C19(Case):
    prop = "C19"

    def run(self, mk):
        sp = self.spec
        n = sp.get("n", 2)
        objs = []
        for i in range(n):
            o = VObj(name="o%d" % i)
            if sp.get("concrete") and sp["kind"] != "flatten":
                # the value itself is a real Python object chosen through the solver by an n-way fork (no proxy): identity
                # tests inside the engine (`is None`, sentinels) see exactly what a user's data would show them
                o.v = ALPHA[mk.choice("o%d.v" % i, len(ALPHA))]
            else:
                o.v = mk.enum("o%d.v" % i, ALPHA)
            o.w = mk.enum("o%d.w" % i, ALPHA)
            o.c = mk.enum("o%d.c" % i, CONTAINERS)
            o.d = {"k": o.v}
            o.n = mk.int("o%d.n" % i)
            if sp["kind"].startswith("chain"):
                o.nm = mk.enum("o%d.nm" % i, NAMES)
            if sp["kind"] == "flatten":
                if sp.get("concrete"):
                    o.items = [ALPHA[mk.choice("o%d.e%d" % (i, j), len(ALPHA))] for j in range(2)]
                else:
                    o.items = [mk.enum("o%d.e%d" % (i, j), ALPHA) for j in range(2)]
            if sp["kind"] in ("flatten_scalar", "concat_scalar"):
                # the attribute is NOT a collection but a bare value (possibly None / 0 / False / ""): one element
                o.items = ALPHA[mk.choice("o%d.items" % i, len(ALPHA))]
            objs.append(o)
        data = dict(objs=objs, res=None)
        k = sp["kind"]
        try:
            if k == "head":
                with rule_mode():
                    x = let(VObj, domain=objs)
                    q = infer(entity(Out(src=x, val=self._valexpr(x)), x.n > 0))
                res = list(q.evaluate())
            else:
                with symbolic_mode():
                    x = let(VObj, domain=objs)
                    ve = self._valexpr(x)
                    lit = ALPHA[sp["lit"]] if "lit" in sp else None
                    if k == "cmp_lit":
                        cond = self._cmp(sp["op"], ve, lit, sp.get("side", "r"))
                        q = an(entity(x, cond))
                    elif k == "cmp_attr":
                        q = an(entity(x, self._cmp(sp["op"], ve, x.w, "r")))
                    elif k == "cmp_cross":  # two variables: y.w == x.v
                        y = let(VObj, domain=objs)
                        q = an(set_of([x, y], self._cmp(sp["op"], ve, y.w, "r")))
                    elif k == "int_cmp":
                        import operator
                        q = an(entity(x, getattr(operator, sp["op"])(x.n, sp["k"])))
                    elif k == "in_lit":
                        q = an(entity(x, in_(ve, LITLIST)))
                    elif k == "not_in_lit":
                        q = an(entity(x, not_(in_(ve, LITLIST))))
                    elif k == "contains_lit":  # container attribute (possibly empty = falsy) as operand
                        q = an(entity(x, contains(x.c, sp["item"])))
                    elif k == "contains_attr":
                        q = an(entity(x, contains(x.c, ve)))
                    elif k == "select":
                        q = an(set_of([x, ve]))
                    elif k == "select_cond":
                        q = an(set_of([x, ve], x.n > 0))
                    elif k == "select_entity":
                        q = an(entity(ve))
                    elif k == "kw":
                        q = an(entity(VObj(From(objs), v=lit)))
                    elif k == "flatten":
                        e = flatten(x.items)
                        q = an(set_of([x, e])) if sp.get("with_parent") else an(entity(e))
                    elif k == "flatten_scalar":
                        e = flatten(x.items)
                        q = an(set_of([x, e])) if sp.get("with_parent") else an(entity(e))
                    elif k == "concat_scalar":
                        q = an(entity(concatenate(x.items)))
                    elif k == "or_contains":   # the false row of a membership test in an empty container must still reach the other disjunct
                        q = an(entity(x, contains(x.c, ve) | (x.n > 0)))
                    elif k == "or_and_contains":
                        q = an(entity(x, and_(contains(x.c, ve), x.n > 5) | (x.n > 0)))
                    elif k == "chain":      # a chain of mappings in condition position: only the OUTERMOST value is a truth value
                        q = an(entity(x, x.nm.isdigit()))
                    elif k == "chain_not":
                        q = an(entity(x, not_(x.nm.isdigit())))
                    elif k == "chain_and":
                        q = an(entity(x, and_(x.n > 0, not_(x.nm.isdigit()))))
                    elif k == "chain_args":
                        q = an(entity(x, x.nm.startswith("")))
                    elif k == "chain_or":
                        q = an(entity(x, x.nm.isdigit() | (x.n > 0)))
                    elif k == "cond_position":  # control: here truthiness IS the meaning
                        q = an(entity(x, ve))
                    elif k == "not_cond_position":
                        q = an(entity(x, not_(ve)))
                    else:
                        raise ValueError(k)
                res = list(q.evaluate())
                data["sel"] = (x, ve)
        except Exception as e:
            return data, ["exc", type(e).__name__, str(e)[:200]]
        data["res"] = res
        return data, self._view(res, objs)

    def _valexpr(self, x):
        a = self.spec.get("access", "attr")
        if a == "attr":
            return x.v
        if a == "index":
            return x.d["k"]
        if a == "call":
            return x.get()
        raise ValueError(a)

    @staticmethod
    def _cmp(op, ve, other, side):
        import operator
        f = getattr(operator, op)
        return f(ve, other) if side == "r" else f(other, ve)

    def _idx(self, o, objs):
        for j, it in enumerate(objs):
            if it is o:
                return j
        return -1

    def _view(self, res, objs):
        k = self.spec["kind"]
        out = []
        for r in res:
            if k == "head":
                out.append(["Out", self._idx(getattr(r, "src", None), objs)])
            elif k in ("select", "select_cond"):
                out.append([self._idx(r[self._sel_x(r)], objs), "*"])
            elif k == "cmp_cross":
                vals = list(r.values()) if hasattr(r, "values") else []
                out.append([self._idx(v.value, objs) for v in r.data.values()])
            elif k in ("select_entity", "flatten", "flatten_scalar", "concat_scalar"):
                out.append("*")
            else:
                out.append(self._idx(r, objs))
        return out

    @staticmethod
    def _sel_x(r):
        # first key of a UnificationDict is the first selected expression
        return next(iter(r.data.keys()))

    # ------------------------------------------------------------------ reference
    def obligations(self, alg, data, outcome):
        if outcome and outcome[0] == "exc":
            return [("no_exception:%s:%s" % (outcome[1], outcome[2][:60]), alg.const(False))]
        sp = self.spec
        objs = data["objs"]
        res = data["res"]
        k = sp["kind"]
        lit = ALPHA[sp["lit"]] if "lit" in sp else None
        obs = []
        import operator

        def cond(o):
            if k == "cmp_lit" or k == "kw":
                op = sp.get("op", "eq")
                f = getattr(operator, op)
                return pred_term(alg, o.v, (lambda a: f(a, lit)) if sp.get("side", "r") == "r" else (lambda a: f(lit, a)))
            if k == "cmp_attr":
                f = getattr(operator, sp["op"])
                return pred2_term(alg, o.v, o.w, f)
            if k == "int_cmp":
                return alg.cmp(sp["op"], o.n, sp["k"])
            if k == "in_lit":
                return pred_term(alg, o.v, lambda a: a in LITLIST)
            if k == "not_in_lit":
                return pred_term(alg, o.v, lambda a: a not in LITLIST)
            if k == "contains_lit":
                return pred_term(alg, o.c, lambda c: sp["item"] in c)
            if k == "contains_attr":
                return pred2_term(alg, o.c, o.v, lambda c, a: a in c)
            if k == "or_contains":
                return alg.or_(pred2_term(alg, o.c, o.v, lambda c, a: a in c), alg.cmp("gt", o.n, 0))
            if k == "or_and_contains":
                return alg.or_(alg.and_(pred2_term(alg, o.c, o.v, lambda c, a: a in c), alg.cmp("gt", o.n, 5)), alg.cmp("gt", o.n, 0))
            if k == "chain":
                return pred_term(alg, o.nm, lambda a: a.isdigit())
            if k == "chain_not":
                return pred_term(alg, o.nm, lambda a: not a.isdigit())
            if k == "chain_and":
                return alg.and_(alg.cmp("gt", o.n, 0), pred_term(alg, o.nm, lambda a: not a.isdigit()))
            if k == "chain_args":
                return pred_term(alg, o.nm, lambda a: a.startswith(""))
            if k == "chain_or":
                return alg.or_(pred_term(alg, o.nm, lambda a: a.isdigit()), alg.cmp("gt", o.n, 0))
            if k == "cond_position":
                return pred_term(alg, o.v, bool)
            if k == "not_cond_position":
                return pred_term(alg, o.v, lambda a: not a)
            raise ValueError(k)

        if k in ("cmp_lit", "cmp_attr", "int_cmp", "in_lit", "not_in_lit", "contains_lit", "contains_attr", "kw",
                 "cond_position", "not_cond_position", "chain", "chain_not", "chain_and", "chain_args", "chain_or",
                 "or_contains", "or_and_contains"):
            idx = [self._idx(r, objs) for r in res]
            obs.append(("members_in_order", alg.const(all(i >= 0 for i in idx) and all(p < q for p, q in zip(idx, idx[1:])))))
            for i, o in enumerate(objs):
                obs.append(("row_%d" % i, alg.iff(alg.const(i in idx), cond(o))))
        elif k == "cmp_cross":
            f = getattr(operator, sp["op"])
            rows = [tuple(self._idx(v.value, objs) for v in r.data.values()) for r in res]
            obs.append(("no_dup", alg.const(len(rows) == len(set(rows)))))
            for i, o in enumerate(objs):
                for j, p in enumerate(objs):
                    obs.append(("pair_%d_%d" % (i, j), alg.iff(alg.const((i, j) in rows), pred2_term(alg, o.v, p.w, f))))
        elif k in ("select", "select_cond"):
            x, ve = data["sel"]
            rows = [(self._idx(r[x], objs), r[ve]) for r in res]
            idx = [i for i, _ in rows]
            obs.append(("one_row_per_object", alg.const(len(idx) == len(set(idx)) and all(i >= 0 for i in idx))))
            for i, o in enumerate(objs):
                want = alg.const(True) if k == "select" else alg.cmp("gt", o.n, 0)
                obs.append(("row_%d_present" % i, alg.iff(alg.const(i in idx), want)))
            for i, val in rows:
                if i >= 0:
                    obs.append(("row_%d_value" % i, same_value(alg, val, objs[i].v)))
        elif k == "select_entity":
            obs.append(("one_value_per_object", alg.const(len(res) == len(objs))))
            for i, (val, o) in enumerate(zip(res, objs)):
                obs.append(("value_%d" % i, same_value(alg, val, o.v)))
        elif k == "flatten":
            exp = [(i, e) for i, o in enumerate(objs) for e in o.items]
            if sp.get("with_parent"):
                got = []
                for r in res:
                    vals = list(r.data.values())
                    got.append((self._idx(vals[0].value, objs), vals[1].value))
            else:
                got = [(None, r) for r in res]
            obs.append(("one_row_per_element", alg.const(len(got) == len(exp))))
            for n_, ((gi, gv), (ei, ev)) in enumerate(zip(got, exp)):
                obs.append(("element_%d" % n_, alg.and_(alg.const(gi is None or gi == ei), same_value(alg, gv, ev))))
        elif k in ("flatten_scalar", "concat_scalar"):
            def elements(v):
                return list(v) if isinstance(v, tuple) else [v]     # str is a value, not a collection, for the library
            exp = [(i, e) for i, o in enumerate(objs) for e in elements(o.items)]
            if k == "concat_scalar":
                obs.append(("exactly_one_value_and_it_is_a_list", alg.const(len(res) == 1 and isinstance(res[0], list))))
                got = [(None, e) for e in (res[0] if len(res) == 1 and isinstance(res[0], list) else [])]
            elif sp.get("with_parent"):
                got = []
                for r in res:
                    vals = list(r.data.values())
                    got.append((self._idx(vals[0].value, objs), vals[1].value))
            else:
                got = [(None, r) for r in res]
            obs.append(("one_element_per_bare_value_and_per_member:%d_of_%d" % (len(got), len(exp)), alg.const(len(got) == len(exp))))
            for n_, ((gi, gv), (ei, ev)) in enumerate(zip(got, exp)):
                obs.append(("element_%d" % n_, alg.const((gi is None or gi == ei) and type(gv) is type(ev) and gv == ev)))
        elif k == "head":
            got = [(self._idx(getattr(r, "src", None), objs), r) for r in res]
            idx = [i for i, _ in got]
            obs.append(("instances_are_Out", alg.const(all(type(r) is Out for r in res))))
            obs.append(("one_instance_per_binding", alg.const(len(idx) == len(set(idx)))))
            for i, o in enumerate(objs):
                obs.append(("binding_%d" % i, alg.iff(alg.const(i in idx), alg.cmp("gt", o.n, 0))))
            for i, r in got:
                if i >= 0:
                    obs.append(("field_%d" % i, same_value(alg, r.val, objs[i].v)))
        else:
            raise ValueError(k)
        return obs


def make_case(spec):
    return C19(spec)


def shapes(tier, seed):
    out = []
    n = 2 if tier == "quick" else 3
    for access in ("attr", "index", "call"):
        for li in range(len(ALPHA)):
            for op in ("eq", "ne"):
                for side in ("r", "l"):
                    if access != "attr" and (side == "l" or op == "ne") and tier == "quick":
                        continue
                    out.append(dict(kind="cmp_lit", op=op, lit=li, side=side, access=access, n=n))
        out.append(dict(kind="cmp_attr", op="eq", access=access, n=n))
        out.append(dict(kind="cmp_attr", op="ne", access=access, n=n))
        out.append(dict(kind="in_lit", access=access, n=n))
        out.append(dict(kind="not_in_lit", access=access, n=n))
        out.append(dict(kind="contains_attr", access=access, n=n))
        out.append(dict(kind="select", access=access, n=n))
        out.append(dict(kind="select_cond", access=access, n=n))
        out.append(dict(kind="select_entity", access=access, n=n))
        out.append(dict(kind="head", access=access, n=n))
        out.append(dict(kind="cond_position", access=access, n=n))
        out.append(dict(kind="not_cond_position", access=access, n=n))
    for kk in ("select_entity", "select", "select_cond", "head"):
        out.append(dict(kind=kk, access="attr", n=2, concrete=True))
    out.append(dict(kind="flatten", n=1, concrete=True))
    out.append(dict(kind="flatten", n=1, with_parent=True, concrete=True))
    for li in (0, 6):
        out.append(dict(kind="cmp_lit", op="eq", lit=li, side="r", access="attr", n=2, concrete=True))
    for kk in ("chain", "chain_not", "chain_and", "chain_args", "chain_or"):
        out.append(dict(kind=kk, n=n))
    for kk in ("or_contains", "or_and_contains"):
        out.append(dict(kind=kk, access="attr", n=n))
        out.append(dict(kind=kk, access="attr", n=2, concrete=True))
    out.append(dict(kind="cmp_cross", op="eq", n=2))
    out.append(dict(kind="cmp_cross", op="ne", n=2))
    for item in (0, 1, ""):
        out.append(dict(kind="contains_lit", item=item, n=n))
    for op in ("eq", "ne", "lt", "le", "gt", "ge"):
        for kk in (0, 1, -1):
            out.append(dict(kind="int_cmp", op=op, k=kk, n=n))
    for li in range(len(ALPHA)):
        out.append(dict(kind="kw", lit=li, n=n))
    out.append(dict(kind="flatten", n=n))
    out.append(dict(kind="flatten", with_parent=True, n=n))
    out.append(dict(kind="flatten_scalar", n=2))
    out.append(dict(kind="flatten_scalar", with_parent=True, n=2))
    out.append(dict(kind="concat_scalar", n=2))
    return out


# ---------------------------------------------------------------------------------------------- twins
def _twin_operands_filtered_by_truth():
    """The defect repaired by 'fix: do not drop falsy ...', re-introduced."""
    from entity_query_language import symbolic as sym
    sym.DomainMapping._is_condition_ = property(lambda self: True)


def _twin_literal_zero_dropped():
    from entity_query_language import symbolic as sym
    orig = sym.Variable.__iter__

    def it(self):
        for d in orig(self):
            if isinstance(self, sym.Literal) and not d[self._id_].value:
                continue
            yield d
    sym.Variable.__iter__ = it


TWINS = {
    "operands_filtered_by_truthiness": dict(apply=_twin_operands_filtered_by_truth,
                                            specs=lambda t: [dict(kind="cmp_lit", op="eq", lit=0, side="r", access="attr", n=2)]),
    "selected_values_filtered_by_truthiness": dict(apply=_twin_operands_filtered_by_truth,
                                                   specs=lambda t: [dict(kind="select", access="attr", n=2)]),
    "falsy_literals_dropped": dict(apply=_twin_literal_zero_dropped,
                                   specs=lambda t: [dict(kind="cmp_lit", op="eq", lit=0, side="r", access="attr", n=2)]),
}
