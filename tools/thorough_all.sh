#!/bin/bash
# Runs the thorough tier of every check one after the other (several hours); prints one summary line per check.
cd "$(dirname "$0")/.."
bash bootstrap.sh >/dev/null 2>&1
for i in ${@:-$(seq -w 1 20)}; do
  echo "=== C$i $(date +%T)"
  out=$(./check C$i --tier thorough 2>&1); rc=$?
  echo "C$i rc=$rc $(echo "$out" | tail -1 | cut -c1-300)"
  echo "$out" | grep -E "^(VIOLATION|KNOWN-FINDING|INCONCLUSIVE|HARNESS)" | head -8
done
