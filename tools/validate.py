#!/usr/bin/env python3
"""Validate MANIFEST.json and every evidence file against the harness schemas (run with python3-vt)."""
import glob, json, sys
import jsonschema
ok = True
man = json.load(open('/verif/MANIFEST.json'))
jsonschema.validate(man, json.load(open('/root/.vp/MANIFEST.schema.json')))
es = json.load(open('/root/.vp/EVIDENCE.schema.json'))
for f in sorted(glob.glob('/verif/evidence/*.json')):
    try:
        jsonschema.validate(json.load(open(f)), es)
    except Exception as e:
        ok = False
        print("INVALID", f, str(e)[:300])
ids = {c['property_id'] for c in man['checks']} | {n['property_id'] for n in man.get('not_applicable', [])}
missing = [("C%02d" % i) for i in range(1, 21) if ("C%02d" % i) not in ids]
print("manifest ok; evidence ok" if ok else "problems", "missing:", missing)
sys.exit(0 if ok and not missing else 1)
