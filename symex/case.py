"""Case protocol and per-shape worker.

A *case* is one concrete program shape (query / rule tree / history template) of one property together
with its symbolic inputs.  ``Case.run(mk)`` declares the inputs through the maker ``mk``, builds the
query through the public API and runs the REAL engine on them; ``Case.obligations(alg, data, outcome)``
states what the property demands of that outcome, over an algebra (z3 terms or plain Python).
"""
from __future__ import annotations

import hashlib
import json
import os
import sys
import time
import traceback
from typing import Any, Dict, List, Optional, Tuple

import z3

from .explorer import Ctx, HarnessError, PathPruned, explore
from .values import SymMaker, PlainMaker, set_ctx
from .alg import Z3, PY

EQL_SRC = os.environ.get("EQL_SRC", "/repo/src")


class Case:
    prop = "C00"
    max_paths = 20000
    max_wall = 120.0

    def __init__(self, spec: Dict[str, Any]):
        self.spec = spec

    def run(self, mk) -> Tuple[Any, Any]:
        raise NotImplementedError

    def obligations(self, alg, data, outcome) -> List[Tuple[str, Any]]:
        raise NotImplementedError

    def regions(self, alg, data, outcome) -> Dict[str, Any]:
        """Known-finding regions: name -> term (true where the input/shape lies in that region)."""
        return {}

    def describe(self) -> str:
        return json.dumps(self.spec, sort_keys=True)


def reset_engine():
    """Per-path hygiene, the suite's own fixture idiom plus the package's public switches."""
    from entity_query_language.symbolic import Variable, SymbolicExpression, _symbolic_mode
    from entity_query_language.cache_data import enable_caching
    for c in Variable._cache_.values():
        c.clear()
    Variable._cache_.clear()
    _symbolic_mode.set(None)
    del SymbolicExpression._symbolic_expression_stack_[:]
    enable_caching()


def jsonable(x):
    if isinstance(x, (list, tuple)):
        return [jsonable(v) for v in x]
    if isinstance(x, dict):
        return {str(k): jsonable(v) for k, v in x.items()}
    if isinstance(x, (int, str, bool, float)) or x is None:
        return x
    return repr(x)


def plain_run(case: Case, values: Dict[str, Any]):
    """Run the case on ordinary Python data - no proxies, no solver."""
    set_ctx(None)
    reset_engine()
    mk = PlainMaker(values)
    data, outcome = case.run(mk)
    return data, outcome


def plain_verdict(case: Case, values: Dict[str, Any], open_regions: List[str]):
    """(failing labels, regions hit, outcome) of the brute-force oracle on plain data."""
    data, outcome = plain_run(case, values)
    failing = [lbl for lbl, t in case.obligations(PY, data, outcome) if not t]
    regs = case.regions(PY, data, outcome)
    hit = [r for r in open_regions if regs.get(r, False)]
    return failing, hit, outcome


class _Profiler:
    def __init__(self):
        self.seen = set()

    def __call__(self, frame, event, arg):
        if event == "call":
            co = frame.f_code
            fn = co.co_filename
            if fn.startswith(EQL_SRC):
                self.seen.add("%s:%s" % (os.path.basename(fn)[:-3], co.co_qualname))


def explore_case(case: Case, open_regions: List[str], fidelity: str = "all", stop_at_first: bool = False,
                 profile: bool = True, max_paths: Optional[int] = None, max_wall: Optional[float] = None):
    """Explore all paths of a case; returns a JSON-able result dict."""
    res: Dict[str, Any] = dict(spec=case.spec, cexs=[], known=[], fidelity=0, outcomes=0, errors=[],
                               functions=[], sample=None)
    outcomes = set()
    prof = _Profiler() if profile else None
    state = dict(first=True, npath=0)

    class _Stop(BaseException):
        pass

    def path_fn(ctx: Ctx):
        set_ctx(ctx)
        reset_engine()
        mk = SymMaker(ctx)
        state["npath"] += 1
        use_prof = prof is not None and state["first"]
        if use_prof:
            sys.setprofile(prof)
        try:
            data, outcome = case.run(mk)
        finally:
            if use_prof:
                sys.setprofile(None)
        state["first"] = False
        outcomes.add(json.dumps(jsonable(outcome), sort_keys=True))
        if hasattr(case, "metrics"):
            for mk_, mv_ in case.metrics(data, outcome).items():
                res.setdefault("metrics", {})[mk_] = res.setdefault("metrics", {}).get(mk_, 0) + mv_
        obs = case.obligations(Z3, data, outcome)
        if not obs:
            raise HarnessError("no obligation reached on a path of %s" % case.describe())
        terms = [t for _, t in obs]
        if all(z3.is_true(t) for t in terms):
            phi = True  # every obligation is a concrete fact of this path: no solver query needed
        else:
            phi = Z3.and_(*terms)
        regs = case.regions(Z3, data, outcome) if open_regions else {}
        reg_terms = [regs[r] for r in open_regions if r in regs]
        goal = Z3.or_(phi, *reg_terms) if (reg_terms and phi is not True) else phi
        model = ctx.prove(goal)
        if model is not None:
            values = ctx.model_values(model)
            failing, hit, outcome2 = plain_verdict(case, values, open_regions)
            set_ctx(ctx)
            if not failing:
                # the plain oracle compares by VALUE where the symbolic one compares by identity: a model with equal
                # integers can hide a mix-up of values. Ask the solver for a model with pairwise distinct integers.
                ints = [z for z in ctx.inputs.values() if z3.is_int(z)]
                if len(ints) >= 2:
                    ctx.obligations -= 1
                    m2 = ctx.prove(z3.Or(goal, z3.Not(z3.Distinct(*ints))) if not isinstance(goal, bool)
                                   else z3.Not(z3.Distinct(*ints)))
                    if m2 is not None:
                        values = ctx.model_values(m2)
                        failing, hit, outcome2 = plain_verdict(case, values, open_regions)
                        set_ctx(ctx)
                    else:
                        ctx.discharged -= 1
            if not failing:
                raise HarnessError("counterexample does not reproduce on plain data: %s values=%s outcome_sym=%s "
                                   "outcome_plain=%s" % (case.describe(), values, jsonable(outcome),
                                                          jsonable(outcome2)))
            if hit:
                raise HarnessError("symbolic region says outside, plain region says inside %s: %s %s"
                                   % (hit, case.describe(), values))
            res["cexs"].append(dict(values=values, failing=failing, outcome=jsonable(outcome2)))
            if stop_at_first:
                raise _Stop()
            return
        if reg_terms:
            # is the known region still violated on this path?  (informational, and keeps regions honest)
            m2 = ctx.prove(phi)
            ctx.obligations -= 1  # not an obligation of the claim
            if m2 is not None:
                values = ctx.model_values(m2)
                failing, hit, outcome2 = plain_verdict(case, values, open_regions)
                set_ctx(ctx)
                if not failing or not hit:
                    raise HarnessError("region counterexample does not reproduce (failing=%s hit=%s): %s %s"
                                       % (failing, hit, case.describe(), values))
                if len(res["known"]) < 3:
                    res["known"].append(dict(values=values, failing=failing, regions=hit,
                                             outcome=jsonable(outcome2)))
                res["known_count"] = res.get("known_count", 0) + 1
            else:
                ctx.discharged -= 1
        # fidelity replay: same path, plain data, real engine, no proxies
        do_fid = fidelity == "all" or (fidelity == "first" and state["npath"] == 1)
        if do_fid:
            values = ctx.model_values()
            _, outcome2 = plain_run(case, values)
            set_ctx(ctx)
            if jsonable(outcome2) != jsonable(outcome):
                raise HarnessError("fidelity mismatch (proxy leak): %s values=%s symbolic=%s plain=%s"
                                   % (case.describe(), values, jsonable(outcome), jsonable(outcome2)))
            res["fidelity"] += 1
            if res["sample"] is None:
                res["sample"] = dict(spec=case.spec, path_decisions=len(ctx.trail), model=values,
                                     engine_outcome=jsonable(outcome))

    try:
        ctx, ex = explore(path_fn, max_paths=max_paths or case.max_paths, max_wall=max_wall or case.max_wall)
        res["stats"] = ex.stats
    except _Stop:
        res["stats"] = dict(paths=state["npath"], stopped=True)
    except HarnessError as e:
        res["errors"].append(str(e))
        res["stats"] = dict(paths=state["npath"], error=True)
    except Exception as e:  # harness bug: never a pass, never a violation
        res["errors"].append("harness exception: %s\n%s" % (e, traceback.format_exc()[-1500:]))
        res["stats"] = dict(paths=state["npath"], error=True)
    finally:
        set_ctx(None)
        sys.setprofile(None)
    res["outcomes"] = len(outcomes)
    if prof is not None:
        res["functions"] = sorted(prof.seen)
    return res
