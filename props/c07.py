"""C07 - evaluation is demand-driven and consumes lazily supplied domains only as needed."""
from __future__ import annotations

import json
import random

from symex.case import Case
from symex import eqlshapes as S
from symex.eqlshapes import Item, Other, an, entity, let, symbolic_mode
from entity_query_language import From

ASSUMPTIONS = [
    "the domain is a one-shot logging generator (also: an iterator class, a map object); the log length is observed right after each delivered result",
    "one result iterator at a time; histories are sequences of NEXT / CLOSE / FULL chosen through the solver (NEXT and FULL "
    "start a new evaluation when none is open)",
    "a later evaluation may be served from the memoised prefix: the expected log length after the k-th result is "
    "max(length before, 1 + position of the k-th qualifying element)",
]
BOUNDS = {"quick": dict(domain_objects=4, leaves="L<=2", history_ops=3), "thorough": dict(domain_objects=5, leaves="L<=3", history_ops=4)}
LIMITS = {"quick": dict(max_paths=30000, max_wall=200), "thorough": dict(max_paths=400000, max_wall=900)}
FIDELITY_EVERY = {"quick": 4, "thorough": 2}
WALL_BUDGET = {"quick": 500, "thorough": 3600}


class C07(Case):
    prop = "C07"

    def run(self, mk):
        sp = self.spec
        n = sp.get("n", 4)
        cond = sp["cond"]
        need = S.extras_needed(cond)
        classes = [None] * n
        if sp.get("mixed"):
            classes[1] = Other
        items = S.make_objects(mk, Item, "x", n, extra=tuple(e for e in ("f", "t", "d", "s", "sl") if e in need), classes=classes)
        log = []

        def gen():
            for i, o in enumerate(items):
                log.append(i)
                yield o
        class LogIter:
            """a one-shot iterator that is NOT a generator"""

            def __init__(self):
                self.i = 0

            def __iter__(self):
                return self

            def __next__(self):
                if self.i >= len(items):
                    raise StopIteration
                log.append(self.i)
                self.i += 1
                return items[self.i - 1]

        def lazy_domain():
            kind = sp.get("dom", "generator")
            if kind == "iterclass":
                return LogIter()
            if kind == "map":
                return map(lambda i: (log.append(i), items[i])[1], range(len(items)))
            return gen()
        ys = [Other(a=1, name="y0")]
        with symbolic_mode():
            if sp.get("spelling") == "typed":
                x = Item(From(lazy_domain()))
            else:
                x = let(Item, domain=lazy_domain())
            lead = sp.get("lead")
            if lead == "true":          # a constant switch before the condition: the variable is first reached by a RIGHT operand
                q = an(entity(x, True, S.build(cond, {"x": x})))
            elif lead == "and_true":
                from entity_query_language import and_
                q = an(entity(x, and_(True, S.build(cond, {"x": x}))))
            elif lead == "pred_const":  # a predicate over constants only
                q = an(entity(x, S.val_above(3, 1), S.build(cond, {"x": x})))
            elif lead == "other_var":   # a conjunct over ANOTHER variable (eager list domain) first
                y = let(Other, domain=ys)
                q = an(entity(x, y.a > 0, S.build(cond, {"x": x})))
            else:
                q = an(entity(x, S.build(cond, {"x": x})))
        events = []
        data = dict(items=items, events=events)
        events.append(["BUILT", len(log)])
        it = None
        k = 0
        H = sp.get("H", 3)
        try:
            for t in range(H):
                # NEXT and FULL start a new evaluation when no iterator is open (so a history is compact)
                enabled = ["NEXT", "FULL"] + (["CLOSE"] if it is not None else [])
                op = enabled[mk.choice("op%d" % t, len(enabled))]
                if it is None:
                    before = len(log)
                    it = q.evaluate()
                    k = 0
                    events.append(["NEW", before, len(log)])
                if op == "NEXT":
                    before = len(log)
                    try:
                        o = next(it)
                        j = [i for i, x_ in enumerate(items) if x_ is o]
                        k += 1
                        events.append(["RESULT", k, j[0] if j else -1, before, len(log)])
                    except StopIteration:
                        events.append(["END", k, before, len(log)])
                        it = None
                elif op == "CLOSE":
                    before = len(log)
                    it.close()
                    it = None
                    events.append(["CLOSE", before, len(log)])
                elif op == "FULL":
                    while True:
                        before = len(log)
                        try:
                            o = next(it)
                        except StopIteration:
                            events.append(["END", k, before, len(log)])
                            break
                        j = [i for i, x_ in enumerate(items) if x_ is o]
                        k += 1
                        events.append(["RESULT", k, j[0] if j else -1, before, len(log)])
                    it = None
        except Exception as e:
            events.append(["exc", type(e).__name__, str(e)[:160]])
        events.append(["LOG", list(log)])
        if it is not None:
            it.close()
        return data, events

    def obligations(self, alg, data, events):
        items = data["items"]
        cond = self.spec["cond"]
        n = len(items)
        qual = [alg.and_(alg.const(isinstance(it, Item)), S.holds(alg, cond, {"x": it})) if isinstance(it, Item)
                else alg.const(False) for it in items]
        obs = []
        last = -1  # position of the previous result in the current evaluation
        for ev in events:
            kind = ev[0]
            if kind == "exc":
                obs.append(("no_exception:%s:%s" % (ev[1], ev[2][:60]), alg.const(False)))
            elif kind == "BUILT":
                obs.append(("building_the_query_pulls_nothing", alg.const(ev[1] == 0)))
            elif kind == "NEW":
                obs.append(("evaluate()_does_no_work_before_first_result", alg.const(ev[1] == ev[2])))
                last = -1
            elif kind == "CLOSE":
                obs.append(("close_pulls_nothing", alg.const(ev[1] == ev[2])))
            elif kind == "RESULT":
                _, k, j, before, after = ev
                ok_pos = j > last
                obs.append(("result_%d_is_a_later_domain_member" % k, alg.const(ok_pos)))
                if ok_pos:
                    # it is the NEXT qualifying element: it qualifies and nothing between the previous result and it does
                    obs.append(("result_%d_is_next_qualifying" % k,
                                alg.and_(qual[j], *[alg.not_(qual[i]) for i in range(last + 1, j)])))
                    obs.append(("result_%d_pulled_exactly_the_needed_prefix" % k, alg.const(after == max(before, j + 1))))
                    last = j
            elif kind == "END":
                _, k, before, after = ev
                obs.append(("end_after_%d_means_no_further_qualifying" % k,
                            alg.and_(*[alg.not_(qual[i]) for i in range(last + 1, n)])))
                obs.append(("end_pulled_the_whole_domain_once", alg.const(after == n)))
            elif kind == "LOG":
                obs.append(("no_element_pulled_twice_and_in_order", alg.const(ev[1] == list(range(len(ev[1]))))))
        return obs


def make_case(spec):
    return C07(spec)


def shapes(tier, seed):
    rnd = random.Random(seed)
    out = []
    n = 4 if tier == "quick" else 5
    H = 3 if tier == "quick" else 4
    core = S.core_leaves("x")
    vocab = S.leaf_vocabulary("x")
    for leaf in vocab:
        out.append(dict(cond=leaf, n=n, H=H))
    for leaf in (["pf2", "x", 1], ["PC2", "x", 0]):
        out.append(dict(cond=["not", leaf], n=n, H=H))
        out.append(dict(cond=["and", leaf, core[0]], n=n, H=H))
        out.append(dict(cond=["or", core[1], leaf], n=n, H=H))
    for leaf in core[:4]:
        out.append(dict(cond=["not", leaf], n=n, H=H))
        out.append(dict(cond=leaf, n=n, H=H, spelling="typed"))
        out.append(dict(cond=leaf, n=n, H=H, mixed=True))
        out.append(dict(cond=leaf, n=n, H=H, mixed=True, spelling="typed"))
    # one-shot iterators that are not generators
    for dom in ("iterclass", "map"):
        for c in (core[0], core[7], ["and", core[0], core[1]]):
            out.append(dict(cond=c, n=4, H=3, dom=dom))
        out.append(dict(cond=core[1], n=4, H=3, dom=dom, spelling="typed"))
    for lead in ("true", "and_true", "pred_const", "other_var"):
        for c in (core[0], core[7], ["and", core[0], core[1]], ["or", core[1], core[2]]):
            out.append(dict(cond=c, n=4, H=3, lead=lead))
    for l1 in core:
        for l2 in core:
            for op in ("and", "or"):
                if tier == "thorough" or rnd.random() < 0.35:
                    out.append(dict(cond=[op, l1, l2], n=n, H=H))
                if tier == "thorough" and rnd.random() < 0.3:
                    out.append(dict(cond=["not", [op, l1, l2]], n=n, H=H))
    if tier == "thorough":
        skels = list(S.tree_skeletons(3))
        for _ in range(80):
            c = S.fill(rnd.choice(skels), [rnd.choice(core[:4]) for _ in range(3)])
            out.append(dict(cond=rnd.choice(S.negation_variants(c)), n=n, H=H))
    seen, uniq = set(), []
    for s in out:
        k = json.dumps(s, sort_keys=True)
        if k not in seen:
            seen.add(k)
            uniq.append(s)
    return uniq


def _twin_domain_materialised():
    from entity_query_language import hashed_data as hd

    def set_iterable(self, iterable):
        if iterable and not isinstance(iterable, hd.HashedIterable):
            self.iterable = iter([hd.HashedValue(v) if not isinstance(v, hd.HashedValue) else v for v in list(iterable)])
    hd.HashedIterable.set_iterable = set_iterable


def _twin_lookahead_one():
    from entity_query_language import hashed_data as hd

    def it(self):
        yield from list(self.values.values())
        src = iter(self.iterable)
        prev = None
        for v in src:
            self.values[v.id_] = v
            if prev is not None:
                yield prev
            prev = v
        if prev is not None:
            yield prev
    hd.HashedIterable.__iter__ = it


def _twin_evaluate_is_eager():
    from entity_query_language import symbolic as sym
    orig = sym.An.evaluate

    def evaluate(self):
        yield from list(orig(self))
    sym.An.evaluate = evaluate


_l = S.core_leaves("x")[0]
TWINS = {
    "domain_materialised_when_wrapped": dict(apply=_twin_domain_materialised, specs=lambda t: [dict(cond=_l, n=3, H=2)]),
    "domain_read_one_element_ahead": dict(apply=_twin_lookahead_one, specs=lambda t: [dict(cond=_l, n=3, H=3)]),
    "evaluate_computes_everything_up_front": dict(apply=_twin_evaluate_is_eager, specs=lambda t: [dict(cond=_l, n=3, H=3)]),
}
