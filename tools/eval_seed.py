#!/usr/bin/env python3
"""Evaluate a seeded change: eval_seed.py <seed_dir> <target_prop> [checks...]
1. scratch worktree of /repo HEAD + patch; the existing suite must still pass (70) ; demo must FAIL with the patch, PASS without.
2. run the given checks (default: all 20, quick tier) against the patched scratch copy via EQL_SRC/VERIF_OUT.
Writes <seed_dir>/eval.json and removes the worktree."""
import json, os, subprocess, sys, tempfile, shutil, time
seed, target = os.path.abspath(sys.argv[1]), sys.argv[2]
checks = sys.argv[3:] or ["C%02d" % i for i in range(1, 21)]
patch = os.path.join(seed, "patch.diff")
demo = os.path.join(seed, "demo.py")
wt = tempfile.mkdtemp(prefix="evalwt_", dir="/tmp"); os.rmdir(wt)
out = tempfile.mkdtemp(prefix="evalout_", dir="/tmp")
res = dict(seed=seed, target=target)
def sh(cmd, env=None, timeout=3600):
    r = subprocess.run(cmd, shell=True, capture_output=True, text=True, env=env, timeout=timeout)
    return r.returncode, (r.stdout + r.stderr)
try:
    subprocess.check_call(["git", "-C", "/repo", "worktree", "add", "-q", "--detach", wt, "HEAD"])
    rc, o = sh("git -C %s apply --whitespace=nowarn %s" % (wt, patch))
    res["patch_applies"] = rc == 0
    if rc != 0:
        res["apply_output"] = o[-800:]
        rc3, o3 = sh("git -C %s apply --3way --whitespace=nowarn %s" % (wt, patch))
        res["patch_applies_3way"] = rc3 == 0
        if rc3 != 0:
            raise SystemExit
    env = dict(os.environ, PYTHONPATH=wt + "/src")
    rc, o = sh("cd %s && /venv/bin/python -m pytest -q -p no:cacheprovider --deselect test/test_rendering.py 2>&1 | tail -3" % wt, env=env)
    res["suite"] = o.strip().splitlines()[-1] if o.strip() else ""
    res["suite_ok"] = "70 passed" in o and "failed" not in o
    rc, o = sh("/venv/bin/python %s" % demo, env=env, timeout=600)
    res["demo_with_change"] = dict(rc=rc, tail=o[-300:])
    rc, o = sh("/venv/bin/python %s" % demo, env=dict(os.environ, PYTHONPATH="/repo/src"), timeout=600)
    res["demo_without_change"] = dict(rc=rc, tail=o[-300:])
    res["demo_ok"] = res["demo_with_change"]["rc"] != 0 and res["demo_without_change"]["rc"] == 0
    res["checks"] = {}
    for c in checks:
        t = time.time()
        env2 = dict(os.environ, EQL_SRC=wt + "/src", VERIF_OUT=out, VERIF_NO_TWINS="1")
        rc, o = sh("cd /verif && ./check %s --tier quick" % c, env=env2, timeout=3000)
        viol = [l for l in o.splitlines() if l.startswith("VIOLATION")]
        res["checks"][c] = dict(rc=rc, violations=len(viol), wall=round(time.time() - t, 1),
                                first=[l[:400] for l in o.splitlines() if l.startswith("  shape=") or l.startswith("  inputs=")][:2],
                                summary=(o.strip().splitlines() or [""])[-1][:300])
    res["caught_by"] = [c for c, v in res["checks"].items() if v["rc"] == 1]
    res["harness_errors"] = [c for c, v in res["checks"].items() if v["rc"] not in (0, 1)]
finally:
    subprocess.call(["git", "-C", "/repo", "worktree", "remove", "--force", wt])
    shutil.rmtree(out, ignore_errors=True)
    json.dump(res, open(os.path.join(seed, "eval.json"), "w"), indent=1)
    print(json.dumps({k: v for k, v in res.items() if k != "checks"}, indent=1))
    for c, v in res.get("checks", {}).items():
        print(c, v["rc"], v["violations"], v["wall"], v["summary"][:160])
