"""C12 - a rule tree selects, per match, the conclusion ripple-down rules prescribe."""
from __future__ import annotations

import json
import random
from dataclasses import dataclass
from typing import Any

from symex.case import Case
from symex import eqlshapes as S
from symex.eqlshapes import Item, an, entity, let, symbolic_mode
from entity_query_language import rule_mode, Add, refinement, alternative, symbol, infer
from entity_query_language.cache_data import enable_caching, disable_caching

ASSUMPTIONS = [
    "every branch carries exactly one Add conclusion with its own type; branch conditions range over the base query's "
    "variable only; next_rule is not part of the property",
    "tree grammar: a node's exception chain is opened by a `refinement`; further members are `alternative`s written inside "
    "that refinement's block or (spec key sib) further sibling `refinement` blocks of the same node, tried in the order "
    "written; base-level alternatives are written at the rule's own level",
    "branches that introduce their own variable (as the suite's trees do) are leaves; an assignment sigma binds x and every "
    "branch variable. The statement does not say whether a refinement applies per assignment or as soon as some witness exists "
    "(the engine treats refinements the second way and alternatives the first), so only what BOTH readings agree on is demanded: "
    "a conclusion selected under every sigma (agreeing with it on its own variable) must be present, one selected under no sigma "
    "must be absent; multiplicity is not demanded for such trees",
    "pair-matching rules (join=True): the base conditions are cond(x) and p.ref == x over two variables; with hidden=True no "
    "conclusion mentions p while a branch may read it, base-level alternatives included (they also fire for pairs failing the "
    "join); then only WHICH conclusions are produced per x is demanded, not how many equal ones",
    "reference: rule(chain): first node whose condition holds fires; fire(node): the conclusion of its exception chain if "
    "one fires, else its own (the reading under which the suite's eleven rule-tree tests pass)",
]
BOUNDS = {"quick": dict(branches="<=5 (all 65 trees; re-evaluation and caching-off variants for <=3, re-evaluation for all)", objects=2,
                        firing_patterns="all 2^B per object (symbolic)"),
          "thorough": dict(branches="<=6 (all 197 trees), 7 sampled", objects="2 (3 for <=3 branches)", caching="on and off")}
LIMITS = {"quick": dict(max_paths=8000, max_wall=90), "thorough": dict(max_paths=100000, max_wall=600)}
FIDELITY_EVERY = {"quick": 2, "thorough": 2}
WALL_BUDGET = {"quick": 420, "thorough": 3200}


@symbol
@dataclass(eq=False)
class Concl:
    it: Any = None
    other: Any = None


def _mk(i):
    return symbol(dataclass(eq=False)(type("T%d" % i, (Concl,), {})))


TYPES = [_mk(i) for i in range(7)]
COND_FIELDS = ["a", "b", "c", "t0", "t1", "dk", "s0"]


def cond_expr(x, i):
    f = COND_FIELDS[i]
    if f in ("a", "b", "c"):
        return getattr(x, f) > 0
    if f == "t0":
        return x.t[0] > 0
    if f == "t1":
        return x.t[1] > 0
    if f == "dk":
        return x.d["k"] > 0
    if f == "s0":
        return x.s[0] > 0


def cond_val(obj, i):
    f = COND_FIELDS[i]
    if f in ("a", "b", "c"):
        return getattr(obj, f)
    if f == "t0":
        return obj.t[0]
    if f == "t1":
        return obj.t[1]
    if f == "dk":
        return obj.d["k"]
    if f == "s0":
        return obj.s[0]


# tree := [node, alt_node, ...] (base-level chain) ; node := {"i": index, "exc": chain or None}
def number(tree):
    """Assign consecutive indices (condition / conclusion type) in source order."""
    cnt = [0]

    def rec_node(n):
        n["i"] = cnt[0]
        cnt[0] += 1
        if n.get("exc"):
            for m in n["exc"]:
                rec_node(m)
    for n in tree:
        rec_node(n)
    return cnt[0]


def chains(k):
    """All chains (non-empty node lists) with k nodes in total."""
    if k == 0:
        return
    for first in range(1, k + 1):
        for head in nodes(first):
            if first == k:
                yield [head]
            else:
                for rest in chains(k - first):
                    yield [head] + rest


def nodes(k):
    """All nodes with k nodes in total (itself + exception chain)."""
    if k == 1:
        yield {"exc": None}
        return
    for ch in chains(k - 1):
        yield {"exc": ch}


def all_trees(B):
    for t in chains(B):
        t = json.loads(json.dumps(t))
        number(t)
        yield t


class C12(Case):
    prop = "C12"

    def node_cond(self, n, x):
        """Branch condition; a 'bin' node introduces its own fresh variable y over the second pool: x.<f> < y.a."""
        if n.get("bin"):
            y = let(S.Other, domain=self._ys)
            self._yvars[n["i"]] = y
            f = COND_FIELDS[n["i"]]
            lhs = getattr(x, f) if f in ("a", "b", "c") else (x.t[0] if f == "t0" else x.t[1] if f == "t1" else x.d["k"] if f == "dk" else x.s[0])
            return lhs < y.a
        if n.get("onp"):
            return getattr(self._pvar, "abc"[n["i"] % 3]) > 0      # the branch reads the rule's second (joined) variable
        if n.get("bare"):
            # the branch condition is a bare truth-valued mapping (attribute / index): true iff the value is truthy
            f = COND_FIELDS[n["i"]]
            return getattr(x, f) if f in ("a", "b", "c") else (x.t[0] if f == "t0" else x.t[1] if f == "t1" else x.d["k"] if f == "dk" else x.s[0])
        return cond_expr(x, n["i"])

    def emit_body(self, n, v, x):
        if self.spec.get("join") and self.spec.get("hidden"):
            Add(v, TYPES[n["i"]](it=x))         # no conclusion mentions the joined variable
        elif self.spec.get("join"):
            Add(v, TYPES[n["i"]](it=x, other=self._pvar))
        elif n.get("bin"):
            Add(v, TYPES[n["i"]](it=x, other=self._yvars[n["i"]]))
        else:
            Add(v, TYPES[n["i"]](it=x))
        if n.get("exc"):
            first, rest = n["exc"][0], n["exc"][1:]
            sib = set(self.spec.get("sib", []))
            with refinement(self.node_cond(first, x)):
                self.emit_body(first, v, x)
                for m in rest:
                    if m["i"] not in sib:
                        with alternative(self.node_cond(m, x)):
                            self.emit_body(m, v, x)
            # the tail of the exception chain spelled as further (sibling) refinements of the same node: each is tried
            # when the ones written before it did not fire
            for m in rest:
                if m["i"] in sib:
                    with refinement(self.node_cond(m, x)):
                        self.emit_body(m, v, x)

    def prepare(self, mk):
        sp = self.spec
        n = sp.get("n", 2)
        items = S.make_objects(mk, Item, "x", n, extra=("t", "d", "s"))
        self._ys = S.make_objects(mk, S.Other, "y", 2) if sp.get("binary") else []
        self._yvars = {}
        if sp.get("join"):
            # the rule matches PAIRS (x, p): parts p that belong to x (symbolic reference); branch conditions mention x only
            self._ys = [S.Other(name="p%d" % j) for j in range(2)]
            for j, po in enumerate(self._ys):
                po.ref = mk.ref("p%d.ref" % j, items)
                if sp.get("hidden"):
                    po.a, po.b, po.c = (mk.int("p%d.%s" % (j, f)) for f in "abc")
        return dict(items=items, res=None, ys=self._ys)

    def build_and_evaluate(self, items, evaluations=1):
        """Build the rule tree afresh through the public API and evaluate it `evaluations` times."""
        q = self.build(items)
        return [self._view(list(q.evaluate()), items) for _ in range(evaluations)]

    def build(self, items):
        sp = self.spec
        tree = sp["tree"]
        self._yvars = {}
        with symbolic_mode():
            x = let(Item, domain=items)
            if sp.get("join"):
                self._pvar = let(S.Other, domain=self._ys)
                if sp.get("join_first"):
                    q = an(entity(v := let(Concl), self._pvar.ref == x, cond_expr(x, tree[0]["i"])))
                else:
                    q = an(entity(v := let(Concl), cond_expr(x, tree[0]["i"]), self._pvar.ref == x))
            elif sp.get("spelling") == "infer":
                q = infer(v := let(Concl), cond_expr(x, tree[0]["i"]))
            else:
                q = an(entity(v := let(Concl), cond_expr(x, tree[0]["i"])))
        with rule_mode(q):
            self.emit_body(tree[0], v, x)
            for m in tree[1:]:
                with alternative(self.node_cond(m, x)):
                    self.emit_body(m, v, x)
        return q

    def run(self, mk):
        sp = self.spec
        data = self.prepare(mk)
        if sp.get("cache") == "off":
            disable_caching()
        try:
            outs = self.build_and_evaluate(data["items"], 2 if sp.get("twice") else 1)
            out = outs if sp.get("twice") else outs[0]
        except Exception as e:
            enable_caching()
            return data, ["exc", type(e).__name__, str(e)[:200]]
        enable_caching()
        return data, out

    def _view(self, res, items):
        out = []
        for r in res:
            ti = TYPES.index(type(r)) if type(r) in TYPES else -1
            oi = [j for j, it in enumerate(items) if it is getattr(r, "it", None)]
            yi = [j for j, y in enumerate(self._ys) if y is getattr(r, "other", None)]
            out.append([ti, oi[0] if oi else -1] + ([yi[0] if yi else -1] if (self.spec.get("binary") or self.spec.get("join")) else []))
        return out

    # reference -----------------------------------------------------------------------------------
    def reference(self, alg, obj, sigma=None, part=None, items=None):
        """{type index: term} - under which condition T_i is concluded for obj (sigma: bin node index -> its y object;
        part: the joined object of a pair-matching rule whose base conditions include part.ref == obj)."""
        out = {}
        sigma = sigma or {}
        base = self.spec["tree"][0]

        def cond(n):
            if part is not None and n is base:
                return alg.and_(alg.same(part.ref, obj, items), alg.cmp("gt", cond_val(obj, n["i"]), 0))
            if n.get("onp"):
                return alg.cmp("gt", getattr(part, "abc"[n["i"] % 3]), 0)
            if n.get("bare"):
                return alg.cmp("ne", cond_val(obj, n["i"]), 0)
            if n.get("bin"):
                return alg.cmp("lt", cond_val(obj, n["i"]), sigma[n["i"]].a)
            return alg.cmp("gt", cond_val(obj, n["i"]), 0)

        def chain(ch, guard):
            """Emit conclusions of an else-if chain under guard; returns the term 'some node of the chain fired'."""
            none_before = guard
            fired_any = alg.const(False)
            for n in ch:
                here = alg.and_(none_before, cond(n))
                fire(n, here)
                fired_any = alg.or_(fired_any, here)
                none_before = alg.and_(none_before, alg.not_(cond(n)))
            return fired_any

        def fire(n, guard):
            if n.get("exc"):
                exc_fired = chain(n["exc"], guard)
                out[n["i"]] = alg.and_(guard, alg.not_(exc_fired))
            else:
                out[n["i"]] = guard
        chain(self.spec["tree"], alg.const(True))
        return out

    def obligations(self, alg, data, outcome):
        if outcome and outcome[0] == "exc":
            return [("no_exception:%s:%s" % (outcome[1], outcome[2][:80]), alg.const(False))]
        items = data["items"]
        runs = outcome if self.spec.get("twice") else [outcome]
        obs = []
        for rn, rows in enumerate(runs):
            tag = "" if rn == 0 else "re-eval:"
            obs.append((tag + "only_conclusion_types_over_domain_objects", alg.const(all(r[0] >= 0 and r[1] >= 0 for r in rows))))
            binmap = {}

            def collect(ch):
                for n_ in ch:
                    binmap[n_["i"]] = bool(n_.get("bin"))
                    if n_.get("exc"):
                        collect(n_["exc"])
            collect(self.spec["tree"])
            bins = sorted(i for i, b in binmap.items() if b)
            if self.spec.get("join") and self.spec.get("hidden"):
                # pairs (x, p) are matched, conclusions name x only: T_i(x) is produced iff some pair (x, p) selects it (how many
                # equal conclusions several pairs of one x produce is not fixed by the statement and not demanded)
                for oi, obj in enumerate(items):
                    refs = [self.reference(alg, obj, part=po, items=items) for po in self._ys]
                    for ti in refs[0]:
                        cnt = sum(1 for r in rows if r[0] == ti and r[1] == oi)
                        obs.append((tag + "x%d_conclusion_T%d_count_%d" % (oi, ti, cnt),
                                    alg.iff(alg.const(cnt >= 1), alg.or_(*[rf[ti] for rf in refs]))))
            elif self.spec.get("join"):
                for oi, obj in enumerate(items):
                    ref = self.reference(alg, obj)
                    for pj, po in enumerate(self._ys):
                        owner = alg.same(po.ref, obj, items)
                        for ti, term in ref.items():
                            cnt = sum(1 for r in rows if r[0] == ti and r[1] == oi and r[2] == pj)
                            obs.append((tag + "pair_x%d_p%d_conclusion_T%d_count_%d" % (oi, pj, ti, cnt),
                                        alg.and_(alg.const(cnt <= 1), alg.iff(alg.const(cnt == 1), alg.and_(owner, term)))))
                obs.append((tag + "no_conclusion_without_its_part", alg.const(all(r[2] >= 0 for r in rows))))
            elif not bins:
                for oi, obj in enumerate(items):
                    ref = self.reference(alg, obj)
                    for ti, term in ref.items():
                        cnt = sum(1 for r in rows if r[0] == ti and r[1] == oi)
                        obs.append((tag + "object_%d_conclusion_T%d_count_%d" % (oi, ti, cnt),
                                    alg.and_(alg.const(cnt <= 1), alg.iff(alg.const(cnt == 1), term))))
            else:
                # branches with their own variable: an assignment binds x and every branch variable; the SET of produced
                # conclusions must be {conclusion(sigma) | sigma a total assignment}; multiplicity is not demanded
                import itertools
                sigmas = [dict(zip(bins, combo)) for combo in itertools.product(range(len(self._ys)), repeat=len(bins))]
                for oi, obj in enumerate(items):
                    refs = [(sg, self.reference(alg, obj, {b: self._ys[j] for b, j in sg.items()})) for sg in sigmas]
                    for ti in binmap:
                        if binmap[ti]:
                            for yj in range(len(self._ys)):
                                present = any(r[0] == ti and r[1] == oi and r[2] == yj for r in rows)
                                terms = [ref[ti] for sg, ref in refs if sg[ti] == yj]
                                obs.append((tag + "object_%d_witness_%d_T%d_%s" % (oi, yj, ti, "present" if present else "absent"),
                                            alg.and_(alg.implies(alg.and_(*terms), alg.const(present)),
                                                     alg.implies(alg.const(present), alg.or_(*terms)))))
                            stray = sum(1 for r in rows if r[0] == ti and r[1] == oi and r[2] < 0)
                            obs.append((tag + "object_%d_T%d_without_witness_%d" % (oi, ti, stray), alg.const(stray == 0)))
                        else:
                            present = any(r[0] == ti and r[1] == oi for r in rows)
                            terms = [ref[ti] for sg, ref in refs]
                            obs.append((tag + "object_%d_T%d_%s" % (oi, ti, "present" if present else "absent"),
                                        alg.and_(alg.implies(alg.and_(*terms), alg.const(present)),
                                                 alg.implies(alg.const(present), alg.or_(*terms)))))
        return obs


def make_case(spec):
    return C12(spec)


def shapes(tier, seed):
    rnd = random.Random(seed)
    out = []
    maxB = 5 if tier == "quick" else 6
    for B in range(1, maxB + 1):
        for t in all_trees(B):
            out.append(dict(tree=t))
            if B <= 3 or (tier == "thorough" and B <= 5):
                out.append(dict(tree=t, twice=True))
                out.append(dict(tree=t, cache="off"))
                out.append(dict(tree=t, cache="off", twice=True))
                out.append(dict(tree=t, spelling="infer"))
            else:
                out.append(dict(tree=t, twice=True))
    # branches that introduce their own variable (as the suite's rule trees do): a leaf branch other than the base
    def leaves_of(tree):
        acc = []

        def rec(ch, is_base_chain):
            for k_, n_ in enumerate(ch):
                if not n_.get("exc") and not (is_base_chain and k_ == 0):
                    acc.append(n_["i"])
                if n_.get("exc"):
                    rec(n_["exc"], False)
        rec(tree, True)
        return acc

    def mark(tree, idxs):
        t2 = json.loads(json.dumps(tree))

        def rec(ch):
            for n_ in ch:
                if n_["i"] in idxs:
                    n_["bin"] = True
                if n_.get("exc"):
                    rec(n_["exc"])
        rec(t2)
        return t2
    for B in range(2, (4 if tier == "quick" else 5) + 1):
        for t in all_trees(B):
            ls = leaves_of(t)
            for i in ls:
                out.append(dict(tree=mark(t, [i]), binary=True))
                if B <= 3:
                    out.append(dict(tree=mark(t, [i]), binary=True, twice=True))
            if len(ls) >= 2 and B <= 3:
                out.append(dict(tree=mark(t, ls[:2]), binary=True))
    # rules matching PAIRS (x, p): only exception chains under the base (no base-level alternative), conditions on x
    for B in range(1, (4 if tier == "quick" else 5) + 1):
        for t in all_trees(B):
            if len(t) == 1:
                out.append(dict(tree=t, join=True))
                if B <= 3:
                    out.append(dict(tree=t, join=True, twice=True))
                    out.append(dict(tree=t, join=True, cache="off"))
    # branches whose whole condition is a bare truth-valued attribute / index (refinements, alternatives, refined alternatives)
    def mark_bare(tree, idxs):
        t2 = json.loads(json.dumps(tree))

        def rec(ch):
            for n_ in ch:
                if n_["i"] in idxs:
                    n_["bare"] = True
                if n_.get("exc"):
                    rec(n_["exc"])
        rec(t2)
        return t2
    for B in range(2, 5):
        for t in all_trees(B):
            for i in range(1, B):
                out.append(dict(tree=mark_bare(t, [i])))
            out.append(dict(tree=mark_bare(t, list(range(1, B)))))
    # the tail of an exception chain written as SIBLING refinements of the refined node (instead of alternatives inside the
    # first refinement's block); same meaning: each is tried when the ones before it did not fire
    def sib_variants(tree):
        outv = []

        def rec(ch):
            for n_ in ch:
                if n_.get("exc"):
                    ids = [m_["i"] for m_ in n_["exc"][1:]]
                    for k_ in range(len(ids)):
                        outv.append(ids[k_:])        # a suffix of the chain
                    rec(n_["exc"])
        rec(tree)
        return outv
    for B in range(3, (5 if tier == "quick" else 6) + 1):
        for t in all_trees(B):
            for sv in sib_variants(t):
                out.append(dict(tree=t, sib=sv))
                if B <= 4:
                    out.append(dict(tree=t, sib=sv, twice=True))
    # pair-matching rules whose conclusions do not mention the joined variable while a branch condition reads it; the base may
    # have base-level alternatives (they also fire for pairs that fail the join)
    def mark_onp(tree, idxs):
        t2 = json.loads(json.dumps(tree))

        def rec(ch):
            for n_ in ch:
                if n_["i"] in idxs:
                    n_["onp"] = True
                if n_.get("exc"):
                    rec(n_["exc"])
        rec(t2)
        return t2
    def base_level(tree):
        return {n_["i"] for n_ in tree}
    for B in range(1, 4):
        for t in all_trees(B):
            for jf in (False, True):
                out.append(dict(tree=t, join=True, hidden=True, join_first=jf))
                for i in range(1, B):
                    if not jf and i not in base_level(t):
                        # a REFINEMENT reading the joined variable while the base's first conjunct (on x alone) can fail
                        # before that variable is bound: the engine then asks whether SOME value refines (the reading it
                        # uses for branch variables, see ASSUMPTIONS) - not demanded either way
                        continue
                    out.append(dict(tree=mark_onp(t, [i]), join=True, hidden=True, join_first=jf))
            if B >= 2:
                out.append(dict(tree=mark_onp(t, [B - 1]), join=True, hidden=True, join_first=True, twice=True))
    if tier == "thorough":
        seven = list(all_trees(7))
        for t in rnd.sample(seven, min(200, len(seven))):
            out.append(dict(tree=t))
        for t in all_trees(3):
            out.append(dict(tree=t, n=3))
    return out


# ---------------------------------------------------------------------------------------------- twins
def _twin_relink_omitted():
    import importlib
    from entity_query_language import symbolic as sym
    rule = importlib.import_module("entity_query_language.rule")
    orig = rule.alternative_or_next

    def alt(type_, *conditions):
        cur = sym.SymbolicExpression._current_parent_()
        node = cur
        if isinstance(node._parent_, (rule.Alternative, rule.Next)):
            node = node._parent_
        elif isinstance(node._parent_, rule.ExceptIf) and node is node._parent_.left:
            node = node._parent_
        prev_parent = node._parent_
        prev_right = prev_parent.right if isinstance(prev_parent, sym.BinaryOperator) else None
        r = orig(type_, *conditions)
        if prev_right is not None:
            prev_parent.right = prev_right  # undo the re-link into the parent operator
        return r
    rule.alternative_or_next = alt


def _twin_exceptif_keeps_left_conclusion():
    import importlib
    cs = importlib.import_module("entity_query_language.conclusion_selector")
    orig = cs.ExceptIf._evaluate__

    def ev(self, sources=None, yield_when_false=False):
        for out in orig(self, sources, yield_when_false):
            if not self._is_false_:
                self._conclusion_.update(self.left._conclusion_)
            yield out
    cs.ExceptIf._evaluate__ = ev


def _twin_alternative_fires_although_left_fired():
    import importlib
    cs = importlib.import_module("entity_query_language.conclusion_selector")

    def ev(self, sources=None, yield_when_false=False):
        from entity_query_language.symbolic import ElseIf
        for output in ElseIf._evaluate__(self, sources, yield_when_false=yield_when_false):
            if not self.left._is_false_:
                self.update_conclusion(output, self.right._conclusion_)  # the later branch's conclusion although the earlier fired
            elif not self.right._is_false_:
                self.update_conclusion(output, self.right._conclusion_)
            yield output
            self._conclusion_.clear()
    cs.Alternative._evaluate__ = ev


def _t(desc):
    t = json.loads(json.dumps(desc))
    number(t)
    return t


TWINS = {
    "alternative_not_relinked_into_parent": dict(apply=_twin_relink_omitted,
                                                 specs=lambda t: [dict(tree=_t([{"exc": [{"exc": None}, {"exc": None}]}])),
                                                                  dict(tree=_t([{"exc": [{"exc": None}, {"exc": None}, {"exc": None}]}]))]),
    "except_if_keeps_the_refined_conclusion": dict(apply=_twin_exceptif_keeps_left_conclusion,
                                                   specs=lambda t: [dict(tree=_t([{"exc": [{"exc": None}]}]))]),
    "alternative_concludes_although_earlier_branch_fired": dict(apply=_twin_alternative_fires_although_left_fired,
                                                               specs=lambda t: [dict(tree=_t([{"exc": None}, {"exc": None}]))]),
}
