"""C01 - a single-variable query is an exact, ordered, duplicate-free domain filter."""
from __future__ import annotations

import random

from symex.case import Case
from symex import eqlshapes as S
from symex.eqlshapes import Item, an, a, entity, let, symbolic_mode

ASSUMPTIONS = [
    "shapes with again=k iterate the SAME query object k more times; the obligations are then stated on the last result",
    "domain objects are distinct instances of an eq=False @symbol dataclass; attribute values are unbounded "
    "integers, booleans, pairs/lists/dicts of integers",
    "condition trees are enumerated up to the stated number of leaves; beyond it sampled by VERIF_SEED",
]
BOUNDS = {
    "quick": dict(domain_objects=3, leaves="all leaf kinds at L=1 (x negation depth 0..2); all and/or trees with "
                  "L=2 over a covering leaf set x negation variants; sampled L=3", integers="unbounded"),
    "thorough": dict(domain_objects="3 (4 for L<=2)", leaves="L<=3 exhaustive over the covering leaf set with all "
                     "negation placements; L=4..5 sampled by seed", integers="unbounded"),
}
LIMITS = {"quick": dict(max_paths=6000, max_wall=60), "thorough": dict(max_paths=40000, max_wall=300)}
FIDELITY_EVERY = {"quick": 4, "thorough": 1}
WALL_BUDGET = {"quick": 420, "thorough": 3000}


class C01(Case):
    prop = "C01"

    def run(self, mk):
        sp = self.spec
        n = sp.get("n", 3)
        cond = sp["cond"]
        need = S.extras_needed(cond)
        items = S.make_objects(mk, Item, "x", n, extra=tuple(e for e in ("f", "t", "d", "s", "sl") if e in need))
        try:
            with symbolic_mode():
                x = let(Item, domain=items)
                V = {"x": x}
                spelling = sp.get("spelling", "an_entity")
                if spelling == "an_entity":
                    q = an(entity(x, S.build(cond, V)))
                elif spelling == "an_direct":
                    q = an(x, S.build(cond, V))
                elif spelling == "a_entity":
                    q = a(entity(x, S.build(cond, V)))
                elif spelling == "multi":  # several conditions passed to entity (top-level and split)
                    assert cond[0] == "and"
                    q = an(entity(x, *[S.build(s, V) for s in cond[1:]]))
                else:
                    raise ValueError(spelling)
            res = list(q.evaluate())
            for _ in range(sp.get("again", 0)):
                res = list(q.evaluate())      # the same query object evaluated again: the obligations are stated on the LAST result
        except Exception as e:
            return items, ["exc", type(e).__name__, str(e)[:200]]
        idx = []
        for o in res:
            j = [k for k, it in enumerate(items) if it is o]
            idx.append(j[0] if j else -1)
        return items, idx

    def obligations(self, alg, items, outcome):
        obs = []
        if outcome and outcome[0] == "exc":
            return [("no_exception:%s" % outcome[1], alg.const(False))]
        obs.append(("members_of_domain", alg.const(all(i >= 0 for i in outcome))))
        obs.append(("domain_order_each_once", alg.const(all(p < q for p, q in zip(outcome, outcome[1:])))))
        got = set(outcome)
        for i, it in enumerate(items):
            obs.append(("row_%d" % i, alg.iff(alg.const(i in got), S.holds(alg, self.spec["cond"], {"x": it}))))
        return obs

    def regions(self, alg, items, outcome):
        cond = self.spec["cond"]
        r = {}
        r["falsy_operand"] = alg.or_(*[S.falsy_operand_term(alg, cond, {"x": it}) for it in items])
        r["stacked_negation"] = alg.const(S.max_neg_over_leaf(cond) >= 2)
        return r

    def expected(self, values):
        from symex.case import plain_run
        from symex.alg import PY
        items, _ = plain_run(self, values)
        return [i for i, it in enumerate(items) if S.holds(PY, self.spec["cond"], {"x": it})]


def make_case(spec):
    return C01(spec)


def shapes(tier, seed):
    out = []
    vocab = S.leaf_vocabulary("x")
    core = S.core_leaves("x")
    # L = 1 : every leaf kind, negation depth 0..2, both spellings of not
    for leaf in vocab:
        out.append(dict(cond=leaf))
        out.append(dict(cond=["not", leaf]))
        out.append(dict(cond=["~", leaf]))
        out.append(dict(cond=["not", ["not", leaf]]))
    for leaf in core:
        out.append(dict(cond=leaf, spelling="an_direct"))
        out.append(dict(cond=leaf, spelling="a_entity"))
    # L = 2 : all ordered pairs of the covering leaves, and/or, with negation variants
    for l1 in core:
        for l2 in core:
            for op in ("and", "or"):
                base = [op, l1, l2]
                out.append(dict(cond=base))
                out.append(dict(cond=["not", base]))
                out.append(dict(cond=[op, ["not", l1], l2]))
                out.append(dict(cond=[op, l1, ["not", l2]]))
            out.append(dict(cond=["and", l1, l2], spelling="multi"))
    # every leaf kind once in each position of a binary tree
    for leaf in vocab:
        out.append(dict(cond=["and", leaf, core[1]]))
        out.append(dict(cond=["or", core[0], leaf]))
    for tr in (["tr", "x", "a"], ["tr", "x", "sl"]):
        out.append(dict(cond=["not", ["and", tr, core[0]]]))
        out.append(dict(cond=["or", ["not", tr], core[1]]))
    # four leaves: a conjunction of disjunctions and a disjunction of conjunctions (sibling operators under one parent)
    quads = [(core[0], core[1], core[2], core[3]), (core[4], core[5], core[6], core[7]), (core[1], core[6], core[3], core[0])]
    for (a_, b_, c_, d_) in quads:
        out.append(dict(cond=["and", ["or", a_, b_], ["or", c_, d_]]))
        out.append(dict(cond=["or", ["and", a_, b_], ["and", c_, d_]]))
        out.append(dict(cond=["not", ["or", ["and", a_, b_], ["and", c_, d_]]]))
        out.append(dict(cond=["and", ["or", a_, b_], ["or", c_, d_]], spelling="multi"))
    # the same query object iterated again (and a third time): chains of three, negated chains, nested operators
    trips = [(core[0], core[1], core[2]), (core[1], core[3], core[0]), (core[3], core[4], core[5]), (core[6], core[7], core[1]),
             (core[2], core[0], core[3])]
    for (a_, b_, c_) in trips:
        for again in (1, 2):
            out.append(dict(cond=["or", a_, b_, c_], again=again))
            out.append(dict(cond=["not", ["and", a_, b_, c_]], again=again))
            out.append(dict(cond=["and", a_, b_, c_], again=again))
            out.append(dict(cond=["or", ["and", a_, b_], c_], again=again))
            out.append(dict(cond=["and", ["or", a_, b_], ["not", c_]], again=again))
            out.append(dict(cond=["or", a_, ["or", b_, c_]], again=again))
    for l1 in core[:4]:
        for l2 in core[:4]:
            out.append(dict(cond=["or", l1, l2], again=1))
            out.append(dict(cond=["not", ["or", l1, l2]], again=1))
    rnd = random.Random(seed)
    if tier == "quick":
        # covering sample of L = 3
        skels = list(S.tree_skeletons(3))
        for sk in skels:
            for _ in range(6):
                ls = [rnd.choice(core) for _ in range(3)]
                c = S.fill(sk, ls)
                vs = S.negation_variants(c)
                out.append(dict(cond=rnd.choice(vs)))
    else:
        skels = list(S.tree_skeletons(3))
        small = core[:6]
        for sk in skels:
            for l1 in small:
                for l2 in small:
                    for l3 in small:
                        c = S.fill(sk, [l1, l2, l3])
                        out.append(dict(cond=c))
                        vs = S.negation_variants(c)
                        for v in rnd.sample(vs, 3):
                            out.append(dict(cond=v))
        for leaf in core:
            for l2 in core:
                for op in ("and", "or"):
                    out.append(dict(cond=[op, leaf, l2], n=4))
        for L in (4, 5):
            skels = list(S.tree_skeletons(L))
            for _ in range(150):
                sk = rnd.choice(skels)
                c = S.fill(sk, [rnd.choice(core) for _ in range(L)])
                out.append(dict(cond=rnd.choice(S.negation_variants(c, 64))))
    # de-duplicate
    seen, uniq = set(), []
    import json
    for s in out:
        k = json.dumps(s, sort_keys=True)
        if k not in seen:
            seen.add(k)
            uniq.append(s)
    return uniq


# ---------------------------------------------------------------------------------------------- twins
def _twin_inverse_table():
    import operator
    from entity_query_language import symbolic as sym
    orig = sym.Comparator._invert_.fset

    def fset(self, value):
        orig(self, value)
        if self.operation is operator.gt and value:  # le -> gt is the right inverse; sabotage: make it ge
            self.operation = operator.ge
    sym.Comparator._invert_ = property(sym.Comparator._invert_.fget, fset)


def _twin_and_drops_left_binding():
    from entity_query_language import symbolic as sym

    orig = sym.AND._evaluate__

    def ev(self, sources=None, yield_when_false=False):
        for out in orig(self, sources, yield_when_false):
            yield out
            if not self._is_false_:
                return  # stop after the first satisfying row
    sym.AND._evaluate__ = ev


def _twin_elseif_yields_both():
    from entity_query_language import symbolic as sym
    orig = sym.ElseIf._evaluate__

    def ev(self, sources=None, yield_when_false=False):
        for out in orig(self, sources, yield_when_false):
            yield out
            if not self._is_false_ and not self.left._is_false_:
                yield dict(out)  # left row emitted twice
    sym.ElseIf._evaluate__ = ev


def _twin_domain_skips_last():
    from entity_query_language import symbolic as sym

    def it(self):
        vals = list(self._domain_)
        for v in vals[:-1] if len(vals) > 2 else vals:
            yield {self._id_: sym.HashedValue(v)}
    sym.Variable.__iter__ = it


_L = S.core_leaves("x")
TWINS = {
    "comparator_inverse_table_row": dict(apply=_twin_inverse_table,
                                         specs=lambda tier: [dict(cond=["not", ["cmp", "le", ["a", "x", "a"], ["a", "x", "b"]]])]),
    "and_stops_after_first_row": dict(apply=_twin_and_drops_left_binding,
                                      specs=lambda tier: [dict(cond=["and", _L[0], _L[1]])]),
    "elseif_emits_left_row_twice": dict(apply=_twin_elseif_yields_both,
                                        specs=lambda tier: [dict(cond=["or", _L[0], _L[1]])]),
    "domain_iteration_skips_last": dict(apply=_twin_domain_skips_last,
                                        specs=lambda tier: [dict(cond=_L[0])]),
}
