"""Which properties are claimed (with their level text) and which are not (with a reason)."""
PENDING = "check not built yet in this round (planned, see DESIGN.md section 7); not claimed until it runs"

CLAIMED = {
    "C01": dict(design_ref="DESIGN.md 7/C01",
                text="Bounded-exhaustive symbolic execution: for every enumerated condition tree and EVERY integer/boolean "
                     "attribute valuation of a 3-4 object domain, the real engine's result list equals the reference filter "
                     "(membership, domain order, no duplicate). z3 decides each path's obligation and that the paths cover "
                     "the whole input space; shapes beyond the bound are outside the claim."),
    "C02": dict(design_ref="DESIGN.md 7/C02",
                text="Bounded-exhaustive symbolic execution: for every enumerated 2-3 variable query (joins on integers and on "
                     "symbolic object references, self-joins, free variables, every selection/order incl. attribute expressions) "
                     "and EVERY data valuation, the returned row set equals the projected set of satisfying assignments "
                     "(soundness and completeness per assignment, no duplicate when all variables are selected)."),
    "C03": dict(design_ref="DESIGN.md 7/C03",
                text="Bounded-exhaustive symbolic execution: rows(not_^k(c)) for k=0..3, each on a freshly built tree, equal the "
                     "reference (complement for odd k, original for even k) for every enumerated tree c (all leaf kinds, trees "
                     "already containing negations) and EVERY data valuation; the a==b boundaries that separate ge from gt are "
                     "found by the solver, not sampled."),
    "C19": dict(design_ref="DESIGN.md 7/C19",
                text="Bounded-exhaustive symbolic execution with the attribute value a solver-chosen element of "
                     "{0,1,'','a',(),(1,),None,False,True} (and unbounded ints incl. 0): in every value position (comparison and "
                     "membership operand on either side, attribute/index/call access, selected output, keyword field constraint, "
                     "rule-head constructor argument, flattened element) the rows equal the reference computed with Python "
                     "equality only; condition position is the control where truthiness is the meaning."),
    "C05": dict(design_ref="DESIGN.md 7/C05",
                text="Bounded-exhaustive symbolic execution: in ONE path the same shape is evaluated twice with caching enabled and "
                     "twice (fresh query) with caching disabled on the same symbolic data; all four row sets are proved equal to "
                     "the reference for EVERY data valuation (so equal to each other, counts included when all variables are "
                     "selected). Cache hits are counted so the comparison is not vacuous."),
    "C06": dict(design_ref="DESIGN.md 7/C06",
                text="Bounded-exhaustive symbolic execution: the outcome class of the(desc).evaluate() (value / MultipleSolutionFound "
                     "/ NoSolutionFound / anything else) is proved consistent with the NUMBER of satisfying assignments as a z3 term "
                     "(=1, >=2, =0) for every data valuation - the solver, not a dataset, picks the region; re-evaluation and "
                     "agreement with an(desc) are checked in the same path."),
    "C10": dict(design_ref="DESIGN.md 7/C10",
                text="Bounded-exhaustive symbolic execution: rows of an(entity/set_of(free, for_all(u, c) [and d])) equal "
                     "{f | AND over every universal value of Z(c)(f,u) [and Z(d)(f)]} for every enumerated c (mentioning u, the "
                     "free variables, both; comparators, and/or/not), |U| = 1..3, one or two free variables, universal given as "
                     "a variable or an attribute expression, caching on and off, and EVERY data valuation."),
    "C08": dict(design_ref="DESIGN.md 7/C08",
                text="Bounded exhaustive exploration of HISTORIES driven through the solver: a vector of H symbolic op-codes "
                     "(enter/leave query-mode, rule-mode, `with query:` and rule_mode(query) blocks, leave by exception, create / "
                     "advance / close / drop / exhaust two result iterators) is dispatched by solver-checked forking; after every "
                     "step in_symbolic_mode(), the mode kind, the expression-context stack and the behaviour of @symbol "
                     "construction, @predicate calls and symbolic operators are compared with a 6-line reference stack machine. "
                     "All histories of length <= H (5 quick, 6 thorough) are covered (coverage obligation); no data is involved, so "
                     "the solver adds no generalisation beyond the bound."),
    "C09": dict(design_ref="DESIGN.md 7/C09",
                text="Bounded-exhaustive symbolic execution: each query/rule (an, the, infer, Add-conclusion; @predicate function, "
                     "Predicate subclass, HasType, bound methods, rule-head construction) is evaluated under ambient mode none / "
                     "symbolic_mode() / rule_mode() in one path on the same symbolic data; each outcome is proved equal to the "
                     "reference for EVERY data valuation, user predicates must have been executed and rule heads must be real "
                     "instances."),
    "C04": dict(design_ref="DESIGN.md 7/C04",
                text="Bounded-exhaustive symbolic execution over histories AND data: two queries built over the same Variable "
                     "objects undergo an enumerated history (H<=2 quick, H<=3 thorough) of FULL / TAKE(k)+close / DROP(k) / "
                     "FAULT(j) operations in which k (results taken) and j (the call at which the user predicate raises) are "
                     "SYMBOLIC and decided by z3 against running counters; every complete evaluation and a freshly built copy "
                     "are proved equal to the reference for every data valuation; user domains (list/tuple/duplicate/one-shot "
                     "generator) and objects must be left unchanged."),
    "C07": dict(design_ref="DESIGN.md 7/C07",
                text="Bounded-exhaustive symbolic execution: the domain is a logging one-shot generator; through a solver-chosen "
                     "history of NEW/NEXT/CLOSE/FULL it is proved for every data valuation that evaluate() pulls nothing, that each "
                     "delivered result is the NEXT qualifying element (z3: it qualifies and nothing between the previous result "
                     "and it does) and that the log length is exactly max(previous, position+1); no element is pulled twice."),
    "C20": dict(design_ref="DESIGN.md 7/C20",
                text="Bounded exhaustive exploration of IndexedCache driven directly: key lists of <=3 keys (unsorted, duplicated), "
                     "every sequence of <=3 inserts (<=4 thorough) with each key absent or bound to one of I+1 values "
                     "(data-independence: the index only hashes/compares values, so I+1 values cover any value domain), "
                     "overwrites included, int and HashedValue values, then check/retrieve for every lookup and clear(), "
                     "compared with a list-of-(binding, output) reference. The structure hashes its values, so here the solver "
                     "enumerates (n-way forks with a closing coverage obligation) rather than generalises."),
    "C11": dict(design_ref="DESIGN.md 7/C11",
                text="Bounded-exhaustive symbolic execution: for every enumerated flat rule head (variables, attribute "
                     "expressions, reference attributes, constants incl. falsy ones; <=3 fields) and body (joins, or/not, bodies "
                     "binding only some or none of the variables) and EVERY data valuation, infer(entity(T(...), body)) yields "
                     "new real instances in one-to-one correspondence with the satisfying assignments: each instance's fields are "
                     "the values of ONE assignment (identity of pool objects and of the very proxy values), each satisfying "
                     "assignment has its instance, and the count equals the z3 count of satisfying assignments."),
    "C12": dict(design_ref="DESIGN.md 7/C12",
                text="Bounded-exhaustive symbolic execution: ALL rule trees of the grammar (base; chains of alternatives; "
                     "refinements under base / refinements / alternatives; alternatives inside refinement blocks) with up to 5 "
                     "branches (6 thorough) are built through refinement()/alternative()/Add; every branch condition is a fresh "
                     "symbolic comparison, so all 2^B firing patterns per object are decided by z3; the produced (type, object) "
                     "multiset is proved equal to a recursive reference interpreter, also on re-evaluation and with caching off."),
    "C13": dict(design_ref="DESIGN.md 7/C13",
                text="Bounded-exhaustive symbolic execution: T(From(d), ...) for every subset of fields given by keyword, every "
                     "positional prefix after the domain (+ rest by keyword), a dataclass and a hand-written __init__, nested "
                     "T'(...) terms as field values, list/tuple/generator domains whose members' classes are chosen through the "
                     "solver among T / decorated subclass / undecorated subclass / unrelated @symbol class / str, with SYMBOLIC "
                     "constraint values and field values: predicate form, explicit form and the reference are proved equal for "
                     "every valuation."),
    "C14": dict(design_ref="DESIGN.md 7/C14",
                text="Bounded exhaustive exploration of HISTORIES driven through the solver (n-way forks + coverage obligation): "
                     "every sequence of <=4 (5 thorough) operations among concrete construction (keyword / positional / defaults; "
                     "dataclass, hand-written __init__, undecorated subclass, sub-subclass), symbolic construction, rule inference, "
                     "registry clearing, declaration of up to two domain-less variables and (re-)evaluation of their queries; each "
                     "query result is compared by identity with the harness's own log of live instances, and symbolic construction "
                     "must neither register nor run __init__. No data is involved: the solver adds no generalisation beyond the bound."),
    "C15": dict(design_ref="DESIGN.md 7/C15",
                text="Bounded-exhaustive symbolic execution: sub-queries an(entity(v, c)) / an(set_of(vs, c)) combined by & | and_ "
                     "or_ (depth <=2, also as several conditions of entity) with each other and with plain conditions over one and "
                     "two variables; the composed query, the flattened query and the reference are proved equal for EVERY data "
                     "valuation; an(...)/the(...) as comparison operand (either side, four operators) and as predicate-form "
                     "argument restrict the operand to the sub-query's solutions (for the(...): stated when exactly one solution "
                     "exists, and a raise is proved consistent with 0 / >=2 solutions)."),
    "C16": dict(design_ref="DESIGN.md 7/C16",
                text="Bounded-exhaustive symbolic execution: each parent's inner collection has SYMBOLIC membership over a shared "
                     "candidate pool (empty, overlapping, different lengths; a bare element as variant); for every selection ({e}, "
                     "{p,e}, {e,p}, {p.k,e}, {p,e.w}, {e.w}) and extra condition (none, on e, on p, relating both, and/or/not) the "
                     "row set is proved equal to {(p, x) | x in p.items and extra} projected, with no (parent, element) pair twice."),
    "C17": dict(design_ref="DESIGN.md 7/C17",
                text="Bounded-exhaustive symbolic execution: with symbolic membership (and a candidate sequence naming one object "
                     "twice, and a bare element) an(entity(concatenate(p.items))) is proved to yield exactly one row whose value, as "
                     "a SEQUENCE of identities, is the ordered concatenation with multiplicity (z3 prefix-count encoding); in_ / "
                     "contains and their negations against an outer domain select exactly the members / non-members."),
    "C18": dict(design_ref="DESIGN.md 7/C18",
                text="Bounded-exhaustive symbolic execution of pairs (q, rewrite(q)) in one path on the same symbolic data: every "
                     "single rewrite (swap operands, re-associate/flatten chains, operator vs function spelling, conditions passed "
                     "separately, mirror a comparison, contains<->in_, declaration order, selection order, rotate/reverse a domain) "
                     "at every applicable position of the base queries, plus sampled compositions (2 quick, 3 thorough); row sets are "
                     "compared concretely and each side is proved equal to the reference."),
}

NOT_APPLICABLE = {pid: PENDING for pid in ["C%02d" % i for i in range(1, 21)] if pid not in CLAIMED}
