"""Shape language shared by the property harnesses: a small JSON AST of conditions with two interpreters,
``build`` (the real EQL expression, public API only) and ``holds`` (reference semantics over an algebra).

Operands (value position)
  ["a", v, f]     attribute  V[v].<f>           (f in a,b,c : ints)
  ["lit", n]      integer literal
  ["t", v, i]     index      V[v].t[i]          (t : pair of ints)
  ["d", v]        index      V[v].d["k"]        (d : {"k": int})
  ["v", v]        the variable itself (object)
  ["ra", v]       reference attribute V[v].ref (object of another pool)
  ["r", v, f]     chained attribute   V[v].ref.<f>
  ["s", v]        the collection attribute V[v].s (pair of ints as a list)
  ["tt", v]       the tuple attribute V[v].t
  ["c", v, k]     method call with argument V[v].plus(k)   (returns a + k; parameter k has the default 5)
Conditions
  ["cmp", op, L, R]   op in eq ne lt le gt ge, built with the overloaded Python operator
  ["in", item, coll]  in_(item, coll)          ["contains", coll, item]  contains(coll, item)
  ["flag", v]         bare boolean attribute V[v].f
  ["m", v]            bound method call V[v].m()          (returns b < c)
  ["big", v, k]       method call with argument V[v].big(k) (returns a > k)
  ["pf", v]           @predicate function pos(V[v])        (returns a > 0)
  ["PC", v]           Predicate subclass BigP(it=V[v])     (__call__ returns it.b > 1)
  ["pv", O, k]        @predicate function val_above(O, k) over a VALUE operand O (returns value > k)
  ["pv2", O1, O2]     @predicate function val_less(O1, O2) over TWO value operands (returns first < second)
  ["pgap", O1, O2]    @predicate function gap(O1, O2) returning the INT O1 - O2 (true iff non-zero: a truthy non-bool result)
  ["over", v, k]      method call V[v].over(k)             (returns a > k; parameter k has the default 5)
  ["pq", v]           @predicate function whose body builds and evaluates its OWN query inside `with symbolic_mode():`
                      (returns: some object of SUBQ["pool"] has a smaller a)
  ["and", c...]  ["or", c...]  ["not", c]     and_/or_/not_ ;  ["&", c1, c2] ["|", c1, c2] ["~", c] operator spelling
"""
from __future__ import annotations

import itertools
import operator
from dataclasses import dataclass, field
from typing import Any, Dict, List

from entity_query_language import (an, a, the, entity, set_of, let, and_, or_, not_, contains, in_, symbolic_mode,
                                   symbol, predicate, Predicate)

from .alg import OPS, MIRROR, NEG

CALLS = {"pos": 0, "BigP": 0, "m": 0, "big": 0, "exceeds": 0, "Above": 0}


@symbol
@dataclass(eq=False)
class Item:
    a: Any = 0
    b: Any = 0
    c: Any = 0
    f: Any = False
    t: Any = None
    d: Any = None
    s: Any = None
    ref: Any = None
    name: str = ""

    def m(self):
        CALLS["m"] += 1
        return self.b < self.c

    def big(self, k):
        CALLS["big"] += 1
        return self.a > k

    def over(self, k=5):
        return self.a > k

    def plus(self, k=5):
        return self.a + k

    def __repr__(self):
        return "Item<%s>" % self.name


@symbol
@dataclass(eq=False)
class Other:
    """Second pool class (join partner / parent)."""
    a: Any = 0
    b: Any = 0
    c: Any = 0
    f: Any = False
    t: Any = None
    d: Any = None
    s: Any = None
    ref: Any = None
    name: str = ""

    def m(self):
        CALLS["m"] += 1
        return self.b < self.c

    def big(self, k):
        CALLS["big"] += 1
        return self.a > k

    def over(self, k=5):
        return self.a > k

    def plus(self, k=5):
        return self.a + k

    def __repr__(self):
        return "Other<%s>" % self.name


@symbol
@dataclass(eq=False)
class SubItem(Item):
    """Decorated subclass of Item (for type filters)."""

    def __repr__(self):
        return "SubItem<%s>" % self.name


class PlainSubItem(Item):
    """Undecorated subclass of Item."""

    def __repr__(self):
        return "PlainSubItem<%s>" % self.name


@symbol
@dataclass
class EqItem:
    """Domain class with VALUE equality (two distinct objects with the same fields compare equal; not hashable)."""
    a: Any = 0
    b: Any = 0
    c: Any = 0
    name: str = field(default="", compare=False)

    def __repr__(self):
        return "EqItem<%s>" % self.name


@symbol
@dataclass(eq=False)
class Made:
    """Class constructed by rule heads."""
    src: Any = None
    val: Any = None
    extra: Any = None


@predicate
def pos(x):
    CALLS["pos"] += 1
    return x.a > 0


@predicate
def val_above(val, k):
    """Predicate over a VALUE (an attribute / index / call of a variable), not over the object."""
    CALLS["val_above"] = CALLS.get("val_above", 0) + 1
    return val > k


SUBQ = {"pool": None}


@predicate
def has_smaller(x):
    """A predicate that runs a sub-query of its own (opens and leaves a symbolic block while the outer query is evaluated)."""
    with symbolic_mode():
        y = let(Item, domain=SUBQ["pool"])
        q = an(entity(y, y.a < x.a))
    for _ in q.evaluate():
        return True
    return False


@predicate
def val_less(first, second):
    """Predicate over two VALUES (usually two attributes / indices / calls of the same variable)."""
    return first < second


@predicate
def gap(first, second):
    """A predicate whose result is not a bool: an int that is truthy iff the two values differ."""
    return first - second


@predicate
def exceeds(k, x):
    """Two-argument predicate with the variable in the SECOND position."""
    CALLS["exceeds"] += 1
    return x.a > k


@dataclass(eq=False)
class Above(Predicate):
    """Predicate subclass with a constant first field and the variable second."""
    k: Any
    it: Any

    def __call__(self):
        CALLS["Above"] += 1
        return self.it.b > self.k


FAULT = {"armed": False, "j": None, "count": 0, "raised": 0}


class UserFault(RuntimeError):
    """Raised from user code (a predicate) in the middle of an evaluation."""


@predicate
def faulty(x):
    """Like pos(x) but raises at its j-th call while armed (j may be symbolic)."""
    FAULT["count"] += 1
    if FAULT["armed"] and FAULT["j"] == FAULT["count"]:
        FAULT["raised"] += 1
        raise UserFault("user predicate failed at call %d" % FAULT["count"])
    return x.a > 0


@dataclass(eq=False)
class BigP(Predicate):
    it: Any

    def __call__(self):
        CALLS["BigP"] += 1
        return self.it.b > 1


FIELDS_USED_CACHE: Dict[str, Any] = {}


def make_objects(mk, cls, prefix: str, n: int, fields=("a", "b", "c"), extra=(), classes=None):
    """n instances of cls whose listed fields are symbolic ints; extra in {"f","t","d","s"}.
    classes: optional per-index class override."""
    objs = []
    base_cls = cls
    for i in range(n):
        cls = classes[i] if classes and i < len(classes) and classes[i] is not None else base_cls
        kw = {}
        for f in fields:
            kw[f] = mk.int("%s%d.%s" % (prefix, i, f))
        if "f" in extra:
            kw["f"] = mk.bool("%s%d.f" % (prefix, i))
        if "t" in extra:
            kw["t"] = (mk.int("%s%d.t0" % (prefix, i)), mk.int("%s%d.t1" % (prefix, i)))
        if "d" in extra:
            kw["d"] = {"k": mk.int("%s%d.dk" % (prefix, i))}
        if "sl" in extra:   # a list with symbolic membership (possibly empty): for truthiness of a collection
            kw["s"] = mk.slist("%s%d.sl" % (prefix, i), [1, 2])
        elif "s" in extra:
            kw["s"] = [mk.int("%s%d.s0" % (prefix, i)), mk.int("%s%d.s1" % (prefix, i))]
        kw["name"] = "%s%d" % (prefix, i)
        objs.append(cls(**kw))
    return objs


# --------------------------------------------------------------------------------------- analysis
def cond_vars(c) -> List[str]:
    out = []

    def opv(o):
        if o[0] in ("a", "t", "d", "v", "ra", "r", "s", "tt", "c"):
            if o[1] not in out:
                out.append(o[1])

    def rec(c):
        k = c[0]
        if k == "cmp":
            opv(c[2]); opv(c[3])
        elif k in ("in", "contains"):
            opv(c[1]); opv(c[2])
        elif k in ("flag", "m", "pf", "PC", "HT", "ff", "pf2", "PC2", "tr", "over", "pq"):
            if c[1] not in out:
                out.append(c[1])
        elif k == "pv":
            opv(c[1])
        elif k in ("pv2", "pgap"):
            opv(c[1]); opv(c[2])
        elif k == "big":
            if c[1] not in out:
                out.append(c[1])
        elif k in ("and", "or", "&", "|"):
            for s in c[1:]:
                rec(s)
        elif k in ("not", "~"):
            rec(c[1])
        else:
            raise ValueError(c)
    rec(c)
    return out


def extras_needed(c) -> set:
    need = set()

    def opv(o):
        if o[0] == "t" or o[0] == "tt":
            need.add("t")
        elif o[0] == "d":
            need.add("d")
        elif o[0] == "s":
            need.add("s")
        elif o[0] in ("ra", "r"):
            need.add("ref")

    def rec(c):
        k = c[0]
        if k == "cmp":
            opv(c[2]); opv(c[3])
        elif k in ("in", "contains"):
            opv(c[1]); opv(c[2])
        elif k == "pv":
            opv(c[1])
        elif k in ("pv2", "pgap"):
            opv(c[1]); opv(c[2])
        elif k == "flag":
            need.add("f")
        elif k == "tr" and c[2] in ("sl", "t"):
            need.add(c[2])
        elif k in ("and", "or", "&", "|"):
            for s in c[1:]:
                rec(s)
        elif k in ("not", "~"):
            rec(c[1])
    rec(c)
    return need


def value_operands(c) -> List[Any]:
    """All operand specs standing in value position (for the falsy-operand region)."""
    out = []

    def rec(c):
        k = c[0]
        if k == "cmp":
            out.extend([c[2], c[3]])
        elif k in ("in", "contains"):
            out.extend([c[1], c[2]])
        elif k in ("and", "or", "&", "|"):
            for s in c[1:]:
                rec(s)
        elif k in ("not", "~"):
            rec(c[1])
    rec(c)
    return out


def neg_depth(c) -> int:
    """Maximal number of directly stacked negations over a leaf/inner node."""
    best = 0

    def rec(c, run):
        nonlocal best
        k = c[0]
        if k in ("not", "~"):
            best = max(best, run + 1)
            rec(c[1], run + 1)
        elif k in ("and", "or", "&", "|"):
            for s in c[1:]:
                rec(s, run)  # De Morgan pushes the pending negations down to the children
        else:
            pass
    rec(c, 0)
    return best


def max_neg_over_leaf(c) -> int:
    """Maximal number of negations applied (after De Morgan push-down) to any single leaf."""
    best = 0

    def rec(c, n):
        nonlocal best
        k = c[0]
        if k in ("not", "~"):
            rec(c[1], n + 1)
        elif k in ("and", "or", "&", "|"):
            for s in c[1:]:
                rec(s, n)
        else:
            best = max(best, n)
    rec(c, 0)
    return best


# --------------------------------------------------------------------------------------- build
def build_operand(o, V):
    k = o[0]
    if k == "a":
        return getattr(V[o[1]], o[2])
    if k == "lit":
        return o[1]
    if k == "t":
        return V[o[1]].t[o[2]]
    if k == "d":
        return V[o[1]].d["k"]
    if k == "v":
        return V[o[1]]
    if k == "ra":
        return V[o[1]].ref
    if k == "r":
        return getattr(V[o[1]].ref, o[2])
    if k == "s":
        return V[o[1]].s
    if k == "tt":
        return V[o[1]].t
    if k == "c":
        return V[o[1]].plus(o[2])
    raise ValueError(o)


def build(c, V):
    """Real EQL expression for condition spec c; must be called inside symbolic_mode()."""
    k = c[0]
    if k == "cmp":
        L, R = build_operand(c[2], V), build_operand(c[3], V)
        return OPS[c[1]](L, R)
    if k == "in":
        return in_(build_operand(c[1], V), build_operand(c[2], V))
    if k == "contains":
        return contains(build_operand(c[1], V), build_operand(c[2], V))
    if k == "flag":
        return V[c[1]].f
    if k == "tr":       # a non-boolean attribute standing in condition position: its Python truthiness is the meaning
        return getattr(V[c[1]], "s" if c[2] == "sl" else c[2])
    if k == "m":
        return V[c[1]].m()
    if k == "big":
        return V[c[1]].big(c[2])
    if k == "over":
        return V[c[1]].over(c[2])
    if k == "pq":
        return has_smaller(V[c[1]])
    if k == "pv":
        return val_above(build_operand(c[1], V), c[2])
    if k == "pv2":
        return val_less(build_operand(c[1], V), build_operand(c[2], V))
    if k == "pgap":
        return gap(build_operand(c[1], V), build_operand(c[2], V))
    if k == "pf":
        return pos(V[c[1]])
    if k == "PC":
        return BigP(it=V[c[1]])
    if k == "ff":
        return faulty(V[c[1]])
    if k == "pf2":
        return exceeds(c[2], V[c[1]])
    if k == "PC2":
        return Above(k=c[2], it=V[c[1]])
    if k == "HT":
        from entity_query_language import HasType
        return HasType(variable=V[c[1]], types_=SubItem)
    if k == "and":
        return and_(*[build(s, V) for s in c[1:]])
    if k == "or":
        return or_(*[build(s, V) for s in c[1:]])
    if k == "not":
        return not_(build(c[1], V))
    if k == "&":
        return build(c[1], V) & build(c[2], V)
    if k == "|":
        return build(c[1], V) | build(c[2], V)
    if k == "~":
        return ~build(c[1], V)
    raise ValueError(c)


# --------------------------------------------------------------------------------------- reference
def operand_value(o, env):
    k = o[0]
    if k == "a":
        return getattr(env[o[1]], o[2])
    if k == "lit":
        return o[1]
    if k == "t":
        return env[o[1]].t[o[2]]
    if k == "d":
        return env[o[1]].d["k"]
    if k == "v":
        return env[o[1]]
    if k == "ra":
        return env[o[1]].ref
    if k == "r":
        return getattr(env[o[1]].ref, o[2])
    if k == "s":
        return env[o[1]].s
    if k == "tt":
        return env[o[1]].t
    if k == "c":
        return env[o[1]].a + o[2]
    raise ValueError(o)


def is_obj_operand(o):
    return o[0] in ("v", "ra")


def holds(alg, c, env, pools=None):
    """Reference truth of condition c under assignment env (var -> object) - ordinary logic."""
    k = c[0]
    if k == "cmp":
        op, L, R = c[1], c[2], c[3]
        lv, rv = operand_value(L, env), operand_value(R, env)
        if is_obj_operand(L) or is_obj_operand(R):
            same = alg.same(lv, rv, pools)
            if op == "eq":
                return same
            if op == "ne":
                return alg.not_(same)
            raise ValueError("ordering on objects")
        return alg.cmp(op, lv, rv)
    if k in ("in", "contains"):
        item, coll = (c[1], c[2]) if k == "in" else (c[2], c[1])
        iv, cv = operand_value(item, env), operand_value(coll, env)
        return alg.or_(*[alg.and_(p, alg.cmp("eq", e, iv)) for e, p in alg.members(cv)])
    if k == "flag":
        return alg.truth(env[c[1]].f)
    if k == "tr":
        val = getattr(env[c[1]], "s" if c[2] == "sl" else c[2])
        if isinstance(val, (list, tuple)) or type(val).__name__ == "SList":
            return alg.or_(*[p for _, p in alg.members(val)])
        return alg.truth(val)
    if k == "m":
        return alg.cmp("lt", env[c[1]].b, env[c[1]].c)
    if k == "big":
        return alg.cmp("gt", env[c[1]].a, c[2])
    if k in ("pf", "ff"):
        return alg.cmp("gt", env[c[1]].a, 0)
    if k == "PC":
        return alg.cmp("gt", env[c[1]].b, 1)
    if k == "over":
        return alg.cmp("gt", env[c[1]].a, c[2])
    if k == "pq":
        return alg.or_(*[alg.cmp("lt", o.a, env[c[1]].a) for o in SUBQ["pool"]])
    if k == "pv":
        return alg.cmp("gt", operand_value(c[1], env), c[2])
    if k == "pv2":
        return alg.cmp("lt", operand_value(c[1], env), operand_value(c[2], env))
    if k == "pgap":
        return alg.cmp("ne", operand_value(c[1], env), operand_value(c[2], env))
    if k == "pf2":
        return alg.cmp("gt", env[c[1]].a, c[2])
    if k == "PC2":
        return alg.cmp("gt", env[c[1]].b, c[2])
    if k == "HT":
        return alg.const(isinstance(env[c[1]], SubItem))
    if k in ("and", "&"):
        return alg.and_(*[holds(alg, s, env, pools) for s in c[1:]])
    if k in ("or", "|"):
        return alg.or_(*[holds(alg, s, env, pools) for s in c[1:]])
    if k in ("not", "~"):
        return alg.not_(holds(alg, c[1], env, pools))
    raise ValueError(c)


def falsy_operand_term(alg, c, env):
    """True iff some attribute/index operand in value position of c has a falsy value under env."""
    terms = []
    for o in value_operands(c):
        if o[0] in ("a", "t", "d", "r"):
            terms.append(alg.not_(alg.truth(operand_value(o, env))))
    return alg.or_(*terms)


# --------------------------------------------------------------------------------------- enumeration
CMP_OPS = ["eq", "ne", "lt", "le", "gt", "ge"]


def leaf_vocabulary(v="x", rich=True):
    """Every leaf kind over one variable."""
    L = []
    for op in CMP_OPS:
        L.append(["cmp", op, ["a", v, "a"], ["a", v, "b"]])
    for op in CMP_OPS:
        L.append(["cmp", op, ["a", v, "a"], ["lit", 1]])
    for op in CMP_OPS:
        L.append(["cmp", op, ["lit", 2], ["a", v, "c"]])
    if rich:
        L.append(["in", ["a", v, "a"], ["s", v]])
        L.append(["contains", ["s", v], ["a", v, "b"]])
        L.append(["in", ["a", v, "c"], ["tt", v]])
        L.append(["flag", v])
        L.append(["m", v])
        L.append(["big", v, 1])
        L.append(["cmp", "lt", ["t", v, 0], ["t", v, 1]])
        L.append(["cmp", "eq", ["d", v], ["lit", 3]])
        L.append(["cmp", "ge", ["d", v], ["a", v, "a"]])
        L.append(["pf", v])
        L.append(["PC", v])
        L.append(["pf2", v, 1])
        L.append(["PC2", v, 0])
        L.append(["tr", v, "a"])
        L.append(["tr", v, "sl"])
        L.append(["big", v, 0])                       # a falsy argument
        L.append(["over", v, 0])                      # a falsy argument to a parameter that has a (different) default
        L.append(["over", v, 2])
        L.append(["cmp", "gt", ["c", v, 0], ["a", v, "b"]])      # call with a falsy argument as a comparison operand
        L.append(["cmp", "le", ["a", v, "c"], ["c", v, 1]])
        L.append(["pv", ["a", v, "b"], 0])            # predicate over attribute / index / call values
        L.append(["pv", ["t", v, 1], 1])
        L.append(["pv", ["c", v, 0], 2])
        L.append(["pv2", ["a", v, "a"], ["a", v, "b"]])     # a predicate over two values of the same variable
        L.append(["pv2", ["t", v, 0], ["a", v, "c"]])
        L.append(["pv2", ["c", v, 1], ["d", v]])
        L.append(["pgap", ["a", v, "a"], ["a", v, "b"]])    # a predicate returning a non-bool (int) result
    return L


def core_leaves(v="x"):
    """A covering subset used inside larger trees."""
    return [
        ["cmp", "lt", ["a", v, "a"], ["a", v, "b"]],
        ["cmp", "ge", ["a", v, "b"], ["lit", 1]],
        ["cmp", "eq", ["a", v, "a"], ["a", v, "c"]],
        ["cmp", "ne", ["lit", 2], ["a", v, "c"]],
        ["in", ["a", v, "a"], ["s", v]],
        ["flag", v],
        ["m", v],
        ["pf", v],
    ]


def trees(leaves: List[Any], n: int, ops=("and", "or")):
    """All binary and/or trees with exactly n leaves drawn (with order) from ``leaves``."""
    if n == 1:
        for l in leaves:
            yield l
        return
    for k in range(1, n):
        for left in trees(leaves, k, ops):
            for right in trees(leaves, n - k, ops):
                for op in ops:
                    yield [op, left, right]


def tree_skeletons(n: int, ops=("and", "or")):
    """Binary and/or skeletons with n leaf slots (leaf = int slot index)."""
    def rec(lo, hi):
        if hi - lo == 1:
            yield lo
            return
        for k in range(lo + 1, hi):
            for l in rec(lo, k):
                for r in rec(k, hi):
                    for op in ops:
                        yield [op, l, r]
    return rec(0, n)


def fill(skel, leaves):
    if isinstance(skel, int):
        return leaves[skel]
    return [skel[0]] + [fill(s, leaves) for s in skel[1:]]


def negation_variants(c, max_variants=None):
    """c with not_ inserted at every subset of its nodes (bounded)."""
    nodes = []

    def collect(c, path):
        nodes.append(path)
        if c[0] in ("and", "or"):
            for i, s in enumerate(c[1:], 1):
                collect(s, path + (i,))
    collect(c, ())
    out = []
    for r in range(len(nodes) + 1):
        for subset in itertools.combinations(nodes, r):
            out.append(_apply_nots(c, set(subset), ()))
            if max_variants and len(out) >= max_variants:
                return out
    return out


def _apply_nots(c, subset, path):
    if c[0] in ("and", "or"):
        new = [c[0]] + [_apply_nots(s, subset, path + (i,)) for i, s in enumerate(c[1:], 1)]
    else:
        new = c
    if path in subset:
        new = ["not", new]
    return new
