"""C08 - symbolic mode is confined to its block.

The input is the HISTORY: a vector of H symbolic op-codes; dispatch forks through the solver (ctx.choose), so every
feasible history within the bound is explored.  There is no data; z3's contribution is path feasibility over op-codes
and the closing coverage obligation (the explored histories are all histories of that length).
"""
from __future__ import annotations

from dataclasses import dataclass
from typing import Any

from symex.case import Case
from entity_query_language import (an, the, entity, let, symbolic_mode, rule_mode, symbol, predicate, Predicate, HasType, infer,
                                   MultipleSolutionFound, NoSolutionFound)
from entity_query_language.symbolic import in_symbolic_mode, SymbolicExpression, Variable
from entity_query_language.enums import EQLMode

ASSUMPTIONS = [
    "single-threaded histories; threads/asyncio tasks (separate contextvars contexts) are outside the claim",
    "dropping the last reference finalises a generator immediately (CPython reference counting)",
    "iterators range over two pre-built queries with 3 results each (a comparison; and a Predicate-subclass condition, or per "
    "shape a plain comparison / an inferred variable); the(...) over many solutions uses HasType; GEN_NEW uses the lowest free slot",
]
BOUNDS = {"quick": dict(history_length=5, iterators=2, variants="iterator order swapped / inferred variable / two plain comparisons at H-1"),
          "thorough": dict(history_length=6, iterators=2, variants="as quick at H-1")}
LIMITS = {"quick": dict(max_paths=400000, max_wall=500), "thorough": dict(max_paths=5000000, max_wall=3300)}
FIDELITY = {"quick": "first", "thorough": "first"}
WALL_BUDGET = {"quick": 560, "thorough": 3500}
TASKS_PER_CHILD = 1


@symbol
@dataclass(eq=False)
class Thing:
    a: Any = 0


@predicate
def is_big(x):
    return x > 1


@predicate
def within(x, low=0, high=10):
    """a predicate with defaulted parameters (called with positional and keyword arguments)"""
    return low <= x <= high


@dataclass(eq=False)
class Small(Predicate):
    """Predicate subclass: instantiated by the engine for every candidate while a query is evaluated."""
    it: Any

    def __call__(self):
        return self.it.a < 9


@symbol
@dataclass(eq=False)
class Made:
    src: Any = None


class C08(Case):
    prop = "C08"

    def run(self, mk):
        sp = self.spec
        H = sp["H"]
        things = [Thing(1), Thing(2), Thing(3)]
        with symbolic_mode():
            x = let(Thing, domain=things)
            q0 = an(entity(x, x.a > 0))
            y = let(Thing, domain=things)
            if sp.get("q1") == "infer":
                with rule_mode():
                    q1 = infer(entity(Made(src=y), y.a < 9))    # inferred variable: instances built during evaluation
            elif sp.get("q1") == "plain":
                q1 = an(entity(y, y.a < 9))
            else:
                q1 = an(entity(y, Small(it=y)))                 # Predicate subclass as condition
            z = let(Thing, domain=things)
            the_one = the(entity(z, z.a == 2))
            z2 = let(Thing, domain=things)
            the_many = the(entity(z2, HasType(variable=z2, types_=Thing)))
            z3 = let(Thing, domain=things)
            the_none = the(entity(z3, z3.a > 9))
        queries = [q1, q0] if sp.get("swap") else [q0, q1]
        cr = [q0._conditions_root_]
        first = sp.get("first")  # optional fixed first ops (partition of the history space over workers)
        ref_modes = []          # reference: stack of modes, one per open block that sets a mode
        ref_expr = []           # reference: expression context stack (node objects)
        frames = []             # open blocks: (kind, context manager, pushes_mode, pushes_expr)
        gens = [None, None]
        trace = []
        bad = []

        def observe():
            return (in_symbolic_mode(), in_symbolic_mode(EQLMode.Rule), in_symbolic_mode(EQLMode.Query),
                    [id(n) for n in SymbolicExpression._symbolic_expression_stack_])

        def expected():
            m = ref_modes[-1] if ref_modes else None
            return (m is not None, m == EQLMode.Rule, m == EQLMode.Query, [id(n) for n in ref_expr])

        def behaviour():
            """What construction does right now: (is real instance, predicate executed, operators rejected)."""
            o = Thing(5)
            real = type(o) is Thing
            p = is_big(3)
            # outside every block a @predicate behaves as the plain function, whatever the way its arguments are passed
            executed = (p is True and within(1, 3) is False and within(3, 3, 4) is True and within(5, high=4) is False
                        and within(5) is True) if p is True else False
            try:
                x.a
                rejected = False
            except AttributeError:
                rejected = True
            try:
                x == 1
                rejected_eq = False
            except AttributeError:
                rejected_eq = True
            return (real, executed, rejected, rejected_eq)

        for t in range(H):
            enabled = ["ENTER_Q", "ENTER_R", "ENTER_WQ", "ENTER_RQ", "THE_VALUE", "THE_MANY", "THE_NONE"]
            if frames:
                enabled += ["EXIT", "EXIT_EXC"]
            free = [i for i in range(2) if gens[i] is None]
            if free:
                enabled.append("GEN_NEW%d" % free[0])
            for i in range(2):
                if gens[i] is not None:
                    enabled += ["GEN_NEXT%d" % i, "GEN_CLOSE%d" % i, "GEN_DROP%d" % i, "GEN_EXHAUST%d" % i]
            if first and t < len(first):
                if first[t] not in enabled:
                    mk_prune(mk)
                op = first[t]
            else:
                op = enabled[mk.choice("op%d" % t, len(enabled))]
            trace.append(op)
            try:
                if op == "ENTER_Q":
                    cm = symbolic_mode(); cm.__enter__(); frames.append(("Q", cm, True, False)); ref_modes.append(EQLMode.Query)
                elif op == "ENTER_R":
                    cm = rule_mode(); cm.__enter__(); frames.append(("R", cm, True, False)); ref_modes.append(EQLMode.Rule)
                elif op == "ENTER_WQ":
                    in_rule = bool(ref_modes) and ref_modes[-1] == EQLMode.Rule
                    q0.__enter__(); frames.append(("WQ", q0, False, True)); ref_expr.append(cr[0] if in_rule else q0)
                elif op == "ENTER_RQ":
                    cm = rule_mode(q0); cm.__enter__(); frames.append(("RQ", cm, True, True))
                    ref_modes.append(EQLMode.Rule); ref_expr.append(cr[0])
                elif op in ("EXIT", "EXIT_EXC"):
                    kind, cm, pm, pe = frames.pop()
                    if op == "EXIT":
                        cm.__exit__(None, None, None)
                    else:
                        e = ValueError("boom")
                        try:
                            r = cm.__exit__(ValueError, e, None)
                        except ValueError:
                            pass
                    if pm:
                        ref_modes.pop()
                    if pe:
                        ref_expr.pop()
                elif op == "THE_VALUE":
                    if the_one.evaluate().a != 2:
                        raise RuntimeError("the(...) returned a wrong value")
                elif op == "THE_MANY":
                    try:
                        the_many.evaluate()
                        raise RuntimeError("the(...) over three solutions did not raise")
                    except MultipleSolutionFound:
                        pass   # handled inside whatever block is open; the block goes on
                elif op == "THE_NONE":
                    try:
                        the_none.evaluate()
                        raise RuntimeError("the(...) over no solution did not raise")
                    except NoSolutionFound:
                        pass
                elif op.startswith("GEN_NEW"):
                    i = int(op[-1]); gens[i] = queries[i].evaluate()
                elif op.startswith("GEN_NEXT"):
                    i = int(op[-1])
                    try:
                        next(gens[i])
                    except StopIteration:
                        pass
                elif op.startswith("GEN_CLOSE"):
                    i = int(op[-1]); gens[i].close(); gens[i] = None
                elif op.startswith("GEN_DROP"):
                    i = int(op[-1]); gens[i] = None
                elif op.startswith("GEN_EXHAUST"):
                    i = int(op[-1])
                    for _ in gens[i]:
                        pass
            except Exception as e:
                bad.append([t, op, "exception", type(e).__name__, str(e)[:120]])
                break
            got, exp = observe(), expected()
            if got != exp:
                bad.append([t, op, "mode/context", [got[0], got[1], got[2], len(got[3])], [exp[0], exp[1], exp[2], len(exp[3])]])
                break
            mode_on = exp[0]
            try:
                b = behaviour()
            except Exception as e:
                bad.append([t, op, "behaviour-exception", type(e).__name__, str(e)[:120]])
                break
            want = (not mode_on, not mode_on, not mode_on, not mode_on)
            if b != want:
                bad.append([t, op, "construction", list(b), list(want)])
                break
        # cleanup (never part of the verdict)
        gens[0] = gens[1] = None
        while frames:
            try:
                frames.pop()[1].__exit__(None, None, None)
            except Exception:
                pass
        return dict(trace=trace), dict(trace=trace, bad=bad)

    def obligations(self, alg, data, outcome):
        bad = outcome["bad"]
        label = "mode_and_context_match_reference_after_every_step"
        if bad:
            label += ":step%d:%s:%s" % (bad[0][0], bad[0][1], bad[0][2])
        return [(label, alg.const(not bad))]

    def regions(self, alg, data, outcome):
        tr = outcome["trace"]
        return {"iterator_suspended_or_finalised_across_blocks": alg.const(any(o.startswith("GEN_") for o in tr))}


def mk_prune(mk):
    from symex.explorer import PathPruned
    raise PathPruned()


def make_case(spec):
    return C08(spec)


FIRST_OPS = ["ENTER_Q", "ENTER_R", "ENTER_WQ", "ENTER_RQ", "GEN_NEW0", "THE_MANY"]


def shapes(tier, seed):
    H = 5 if tier == "quick" else 6
    out = []
    # partition the history space by its first two ops so that 16 workers share it
    for a in FIRST_OPS:
        second = ["ENTER_Q", "ENTER_R", "ENTER_WQ", "ENTER_RQ", "THE_VALUE", "THE_MANY", "THE_NONE"]
        if a == "THE_MANY":
            second += ["GEN_NEW0"]
        elif a != "GEN_NEW0":
            second += ["EXIT", "EXIT_EXC", "GEN_NEW0"]
        else:
            second += ["GEN_NEW1", "GEN_NEXT0", "GEN_CLOSE0", "GEN_DROP0", "GEN_EXHAUST0"]
        for b in second:
            out.append(dict(H=H, first=[a, b]))
            # iterator 0 over the Predicate-subclass query / over an inferred variable (instances are built while iterating)
            out.append(dict(H=H - 1, first=[a, b], swap=True))
            out.append(dict(H=H - 1, first=[a, b], swap=True, q1="infer"))
            out.append(dict(H=H - 1, first=[a, b], q1="plain"))
    for h in range(1, 3):
        out.append(dict(H=h))
    return out


# ---------------------------------------------------------------------------------------------- twins
def _twin_no_finally():
    from contextlib import contextmanager
    from entity_query_language import symbolic as sym
    import entity_query_language as pkg

    @contextmanager
    def symbolic_mode(query=None, mode=EQLMode.Query):
        prev = sym._symbolic_mode.get()
        if query is not None:
            query.__enter__(in_rule_mode=True)
        sym._set_symbolic_mode(mode)
        yield SymbolicExpression._current_parent_()
        if query is not None:
            query.__exit__()
        sym._set_symbolic_mode(prev)
    _install(symbolic_mode)


def _twin_restore_none():
    from contextlib import contextmanager
    from entity_query_language import symbolic as sym

    @contextmanager
    def symbolic_mode(query=None, mode=EQLMode.Query):
        try:
            if query is not None:
                query.__enter__(in_rule_mode=True)
            sym._set_symbolic_mode(mode)
            yield SymbolicExpression._current_parent_()
        finally:
            if query is not None:
                query.__exit__()
            sym._set_symbolic_mode(EQLMode.Query)
    _install(symbolic_mode)


def _install(fn):
    import importlib
    import sys
    from entity_query_language import symbolic as sym
    sym.symbolic_mode = fn
    for name in ("entity_query_language", "entity_query_language.entity", "entity_query_language.predicate",
                 "entity_query_language.rule", "props.c08"):
        m = sys.modules.get(name)
        if m is not None and hasattr(m, "symbolic_mode"):
            setattr(m, "symbolic_mode", fn)


def _twin_iterator_leaves_mode_off():
    """The defect class repaired in An.evaluate: the iterator switches the mode off and restores it only when finalised."""
    from entity_query_language import symbolic as sym

    def evaluate(self):
        with sym.symbolic_mode(mode=None):
            results = self._evaluate__()
            yield from map(self._process_result_, results)
        self._reset_cache_()
    sym.An.evaluate = evaluate


TWINS = {
    "block_exit_without_finally": dict(apply=_twin_no_finally, specs=lambda t: [dict(H=3, first=["ENTER_Q", "EXIT_EXC"])]),
    "block_exit_restores_query_instead_of_saved_mode": dict(apply=_twin_restore_none, specs=lambda t: [dict(H=3, first=["ENTER_Q", "EXIT"])]),
    "iterator_holds_mode_switch_while_suspended": dict(apply=_twin_iterator_leaves_mode_off,
                                                       specs=lambda t: [dict(H=3, first=["ENTER_Q", "GEN_NEW0"])]),
}
