#!/usr/bin/env python3
"""For every fixed finding: its witness must FAIL on the tree just before the fix commit and PASS on /repo now.
Creates scratch worktrees under /tmp and removes them."""
import json, os, subprocess, sys, tempfile, shutil
HERE = os.path.dirname(os.path.dirname(os.path.abspath(__file__)))
doc = json.load(open(os.path.join(HERE, "known_findings.json")))
PY = os.path.join(HERE, ".venv/bin/python")
CODE = r'''
import json, sys
from symex import case as C
from symex.runner import _module
e = json.loads(sys.argv[1])
cs = _module(e["property"]).make_case(e["witness"]["spec"])
failing, hit, outcome = C.plain_verdict(cs, e["witness"]["values"], [])
print(json.dumps(dict(failing=failing, outcome=C.jsonable(outcome))))
'''
def run(entry, src):
    env = dict(os.environ, PYTHONPATH="%s:%s" % (HERE, src), EQL_SRC=src, PYTHONDONTWRITEBYTECODE="1")
    r = subprocess.run([PY, "-c", CODE, json.dumps(entry)], env=env, capture_output=True, text=True)
    if r.returncode != 0:
        return dict(error=r.stderr[-400:])
    return json.loads(r.stdout.strip().splitlines()[-1])
ok = True
wts = {}
for e in doc["findings"]:
    if e.get("status") != "fixed":
        continue
    c = e["commit"]
    if c not in wts:
        d = tempfile.mkdtemp(prefix="eqlwt_", dir="/tmp")
        os.rmdir(d)
        subprocess.check_call(["git", "-C", "/repo", "worktree", "add", "-q", "--detach", d, c + "^"])
        wts[c] = d
    before = run(e, os.path.join(wts[c], "src"))
    after = run(e, "/repo/src")
    good = bool(before.get("failing")) and after.get("failing") == []
    ok &= good
    print("%-34s before(%s^): %-60s after: %s  %s" % (e["id"], c, str(before.get("failing", before))[:60], after.get("failing", after), "OK" if good else "PROBLEM"))
for d in wts.values():
    subprocess.call(["git", "-C", "/repo", "worktree", "remove", "--force", d])
sys.exit(0 if ok else 1)
