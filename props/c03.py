"""C03 - negation returns the exact complement, at any nesting depth."""
from __future__ import annotations

import json
import random

from symex.case import Case
from symex import eqlshapes as S
from symex import querycase as Q
from props.c02 import xy_leaves, single_leaves, BASE2

ASSUMPTIONS = [
    "each of c, not_(c), not_(not_(c)) [and not_(not_(not_(c)))] is built as a fresh tree through the public API "
    "(negation rewrites its operand in place)",
    "row sets are compared; all variables of the condition are selected",
]
BOUNDS = {
    "quick": dict(variables="1-3", domains="3 (one variable), 2x2 (two)", leaves="L<=2, every leaf kind at L=1, up to 3 "
                  "stacked negations over trees that already contain negations"),
    "thorough": dict(variables="1-3", domains="3 / 2x2", leaves="L<=3 with negation at every node subset"),
}
LIMITS = {"quick": dict(max_paths=8000, max_wall=90), "thorough": dict(max_paths=60000, max_wall=400)}
FIDELITY_EVERY = {"quick": 4, "thorough": 2}
WALL_BUDGET = {"quick": 480, "thorough": 3300}

ONE = dict(pools={"X": 3}, vars={"x": "X"}, select=[["v", "x"]])
TWO = dict(BASE2, select=[["v", "x"], ["v", "y"]])


def wrap(c, k, spelling="not"):
    for _ in range(k):
        c = [spelling, c]
    return c


class C03(Case):
    prop = "C03"

    def run(self, mk):
        sp = self.spec
        pools = Q.make_pools(mk, sp)
        data = dict(pools=pools, rows=[])
        views = []
        depth = sp.get("depth", 2)
        try:
            for k in range(depth + 1):
                q, sel, V = Q.build_query(sp, pools, cond_override=wrap(sp["cond"], k, sp.get("spelling", "not")))
                rows = Q.rows_of(list(q.evaluate()), sel, sp, pools)
                data["rows"].append(rows)
                views.append(Q.view(rows, sp))
        except Exception as e:
            return data, ["exc", type(e).__name__, str(e)[:200]]
        return data, views

    def obligations(self, alg, data, outcome):
        if outcome and outcome[0] == "exc":
            return [("no_exception:%s" % outcome[1], alg.const(False))]
        sp = self.spec
        pools = data["pools"]
        allobjs = [o for p in pools.values() for o in p]
        obs = []
        for k, rows in enumerate(data["rows"]):
            def sat(sigma, k=k):
                t = Q.holds(alg, sp["cond"], Q.env_of(sigma, sp, pools), allobjs)
                return alg.not_(t) if k % 2 else t
            obs += Q.row_obligations(alg, rows, sp, pools, sat, demand_no_dup=False, prefix="not^%d:" % k)
        return obs


def make_case(spec):
    return C03(spec)


def shapes(tier, seed):
    rnd = random.Random(seed)
    out = []

    def add(base, cond, **kw):
        d = dict(base)
        d["cond"] = cond
        d.update(kw)
        out.append(d)
    vocab = S.leaf_vocabulary("x")
    core = S.core_leaves("x")
    J = xy_leaves()
    SX, SY = single_leaves("x"), single_leaves("y")
    for leaf in vocab:
        add(ONE, leaf, depth=3)
        add(ONE, leaf, depth=2, spelling="~")
    for leaf in J:
        add(TWO, leaf, depth=3)
    # trees that already contain negations
    for l1 in core:
        for l2 in core:
            for op in ("and", "or"):
                add(ONE, [op, l1, l2])
                if tier == "thorough" or rnd.random() < 0.5:
                    add(ONE, [op, ["not", l1], l2])
                    add(ONE, [op, l1, ["not", ["not", l2]]])
    pairs = [(a, b) for a in J[:5] for b in (J[:5] + SX[:2] + SY[:2]) if a is not b]
    pairs += [(a, b) for a in SX[:2] for b in SY[:2]] + [(b, a) for a in SX[:2] for b in SY[:2]]
    for (l1, l2) in pairs:
        for op in ("and", "or"):
            add(TWO, [op, l1, l2])
            if tier == "thorough" or rnd.random() < 0.4:
                add(TWO, [op, ["not", l1], l2])
                add(TWO, ["not", [op, l1, ["not", l2]]])
    # three variables: or-of-and / and-of-or trees whose branches mention different variable sets (after De Morgan a variable
    # reaches the right-hand side sometimes bound and sometimes unbound)
    B3 = dict(pools={"X": 2, "Y": 2, "W": 2}, classes={"W": "Other"}, refs={"X": "Y"}, vars={"x": "X", "y": "Y", "w": "W"},
              select=[["v", "x"], ["v", "w"], ["v", "y"]])
    E = lambda a, fa, b, fb: ["cmp", "eq", ["a", a, fa], ["a", b, fb]]
    LTxy = ["cmp", "lt", ["a", "x", "a"], ["a", "y", "a"]]
    FY = ["cmp", "gt", ["a", "y", "b"], ["lit", 0]]
    for c in (["or", ["and", E("x", "a", "w", "a"), FY], LTxy], ["or", LTxy, ["and", E("x", "a", "w", "a"), FY]],
              ["and", ["or", E("x", "a", "w", "a"), FY], LTxy], ["or", ["and", FY, E("x", "a", "w", "a")], E("w", "b", "y", "b")],
              ["and", E("x", "a", "w", "a"), ["or", FY, LTxy]], ["or", E("x", "a", "w", "a"), FY, LTxy]):
        add(B3, c, depth=2)
        add(B3, c, depth=1, select=[["v", "y"], ["v", "x"], ["v", "w"]])
    skels = list(S.tree_skeletons(3))
    nsamp = 60 if tier == "quick" else 600
    for _ in range(nsamp):
        c = S.fill(rnd.choice(skels), [rnd.choice(core) for _ in range(3)])
        add(ONE, rnd.choice(S.negation_variants(c)))
        leaves = J[:5] + SX[:2] + SY[:2]
        c = S.fill(rnd.choice(skels), [rnd.choice(leaves) for _ in range(3)])
        add(TWO, rnd.choice(S.negation_variants(c)))
    if tier == "thorough":
        for sk in skels:
            for ls in [[core[0], core[1], core[4]], [core[2], core[5], core[6]], [core[3], core[7], core[0]]]:
                for v in S.negation_variants(S.fill(sk, ls)):
                    add(ONE, v)
    seen, uniq = set(), []
    for s in out:
        k = json.dumps(s, sort_keys=True)
        if k not in seen:
            seen.add(k)
            uniq.append(s)
    return uniq


# ---------------------------------------------------------------------------------------------- twins
def _twin_le_inverts_to_ge():
    import operator
    from entity_query_language import symbolic as sym
    orig = sym.Comparator._invert_.fset

    def fset(self, value):
        was = self.operation
        orig(self, value)
        if was is operator.le:
            self.operation = operator.ge
    sym.Comparator._invert_ = property(sym.Comparator._invert_.fget, fset)


def _twin_demorgan_and_stays_and():
    from entity_query_language import symbolic as sym
    orig = sym.Not

    def Not(operand):
        if isinstance(operand, sym.AND):
            return sym.AND(Not(operand.left), Not(operand.right))
        if isinstance(operand, sym.OR):
            return sym.AND(Not(operand.left), Not(operand.right))
        return orig(operand)
    sym.Not = Not
    import importlib
    ent = importlib.import_module('entity_query_language.entity')
    ent.Not = Not


def _twin_predicate_inversion_dropped():
    from entity_query_language import symbolic as sym
    orig = sym.Variable._process_output_and_update_values_

    def proc(self, function_output, **kwargs):
        inv = self._invert_
        self._invert_ = False
        try:
            yield from orig(self, function_output, **kwargs)
        finally:
            self._invert_ = inv
    sym.Variable._process_output_and_update_values_ = proc


def _twin_not_is_idempotent():
    """The defect repaired by the 'fix: negating a negated condition' commit, re-introduced."""
    from entity_query_language import symbolic as sym
    import importlib
    ent = importlib.import_module('entity_query_language.entity')
    orig = sym.Not

    def Not(operand):
        if isinstance(operand, (sym.DomainMapping, sym.Variable)) and not isinstance(operand, sym.ResultQuantifier):
            operand._invert_ = True
            return operand
        return orig(operand)
    sym.Not = Not
    ent.Not = Not


_c = S.core_leaves("x")
TWINS = {
    "le_inverts_to_ge": dict(apply=_twin_le_inverts_to_ge,
                             specs=lambda t: [dict(ONE, cond=["cmp", "le", ["a", "x", "a"], ["a", "x", "b"]])]),
    "not_and_rewritten_as_and": dict(apply=_twin_demorgan_and_stays_and, specs=lambda t: [dict(ONE, cond=["and", _c[0], _c[1]])]),
    "predicate_inversion_dropped": dict(apply=_twin_predicate_inversion_dropped, specs=lambda t: [dict(ONE, cond=["pf", "x"])]),
    "negation_of_mapping_is_idempotent": dict(apply=_twin_not_is_idempotent, specs=lambda t: [dict(ONE, cond=["flag", "x"])]),
}
