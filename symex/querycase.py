"""Generic multi-variable query harness pieces shared by C02, C03, C05, C06, C10, C15, C18.

spec keys
  pools   {"X": 2, "Y": 2}                 pool name -> number of objects
  classes {"X": "Item", "Y": "Other"}      pool name -> class (default Item for X, Other otherwise)
  refs    {"X": "Y"}                       objects of pool X carry .ref, a symbolic reference into pool Y
  vars    {"x": "X", "y": "Y", "z": "X"}   query variable -> pool it ranges over (declaration order = dict order)
  cond    condition spec or None
  select  list of operand specs (["v","x"], ["a","y","a"], ...) ; form "set_of" | "entity"
"""
from __future__ import annotations

import itertools
from typing import Any, Dict, List, Tuple

from . import eqlshapes as S
from .eqlshapes import Item, Other, EqItem, an, the, entity, set_of, let, symbolic_mode

CLASSES = {"Item": Item, "Other": Other, "EqItem": EqItem}


@S.symbol
@S.dataclass(eq=False)
class Unrelated:
    """A @symbol class unrelated to Item / Other with the same attribute names."""
    a: Any = 0
    b: Any = 0
    c: Any = 0
    name: str = ""


class Pools(dict):
    """pool name -> objects; .foreign: pool name -> objects of an unrelated class listed in that pool's supplied domain"""

    def __init__(self, *a, **k):
        super().__init__(*a, **k)
        self.foreign = {}


def make_pools(mk, spec) -> Dict[str, List[Any]]:
    pools: Dict[str, List[Any]] = Pools()
    for p, k in spec.get("foreign", {}).items():
        pools.foreign[p] = [Unrelated(name="foreign%d" % i) for i in range(k)]
    cond = spec.get("cond")
    need = S.extras_needed(cond) if cond else set()
    for sel in spec.get("select", []):
        if sel[0] in ("t", "tt"):
            need.add("t")
        if sel[0] == "d":
            need.add("d")
    extra = tuple(e for e in ("f", "t", "d", "s", "sl") if e in need)
    order = list(spec["pools"].keys())
    # pools referenced by others must exist first
    refs = spec.get("refs", {})
    order.sort(key=lambda p: 0 if p in refs.values() else 1)
    for p in order:
        cls = CLASSES[spec.get("classes", {}).get(p, "Item" if p == "X" else "Other")]
        pools[p] = S.make_objects(mk, cls, p.lower() + "_", spec["pools"][p], extra=extra)
    for src, dst in refs.items():
        for i, o in enumerate(pools[src]):
            if pools[dst]:
                o.ref = mk.ref("%s_%d.ref" % (src.lower(), i), pools[dst])
    # instances that exist in the registry but belong to NO domain of the query: a variable over a supplied domain must
    # never range over them (not even when its domain is empty)
    for cname, k in spec.get("outside", {}).items():
        S.make_objects(mk, CLASSES[cname], "out_" + cname.lower(), k, extra=extra)
    return pools


def declare_vars(spec, pools):
    V = {}
    for v, p in spec["vars"].items():
        cls = type(pools[p][0]) if pools[p] else CLASSES[spec.get("classes", {}).get(p, "Item" if p == "X" else "Other")]
        dom = pools[p]
        if spec.get("foreign", {}).get(p):
            # objects of an unrelated class listed in the supplied domain: filtered out by type, never solutions
            dom = list(dom) + list(pools.foreign[p])
        V[v] = let(cls, domain=dom)
    return V


def build_query(spec, pools, quant=an, cond_override=None):
    """Returns (query, selected expression objects). Call inside or outside symbolic mode (enters its own)."""
    with symbolic_mode():
        V = declare_vars(spec, pools)
        cond = spec.get("cond") if cond_override is None else cond_override
        sel = [S.build_operand(o, V) for o in spec["select"]]
        conds = [S.build(cond, V)] if cond else []
        if spec.get("form", "set_of") == "entity":
            q = quant(entity(sel[0], *conds))
        else:
            q = quant(set_of(sel, *conds))
    return q, sel, V


def cell(value, sel_spec, spec, pools):
    """Encode one result cell: variable columns as pool index; expression columns keep the value."""
    if sel_spec[0] == "v":
        pool = pools[spec["vars"][sel_spec[1]]]
        for j, o in enumerate(pool):
            if o is value:
                return j
        return -1
    return value


def rows_of(results, sel, spec, pools):
    rows = []
    form = spec.get("form", "set_of")
    for r in results:
        if form == "entity":
            rows.append((cell(r, spec["select"][0], spec, pools),))
        else:
            rows.append(tuple(cell(r[e], o, spec, pools) for e, o in zip(sel, spec["select"])))
    return rows


def view(rows, spec):
    """JSON-able, proxy-free view of rows: expression columns are dropped (kept as '*')."""
    out = []
    for r in rows:
        out.append([c if o[0] == "v" else "*" for c, o in zip(r, spec["select"])])
    return out


def assignments(spec, pools):
    names = list(spec["vars"].keys())
    for combo in itertools.product(*[range(len(pools[spec["vars"][v]])) for v in names]):
        yield dict(zip(names, combo))


def env_of(sigma, spec, pools):
    return {v: pools[spec["vars"][v]][i] for v, i in sigma.items()}


def ref_pool(spec, pools, operand):
    """Pool in which an object operand lives (for identity comparison)."""
    if operand[0] == "v":
        return pools[spec["vars"][operand[1]]]
    if operand[0] == "ra":
        return pools[spec["refs"][spec["vars"][operand[1]]]]
    return None


def same_with_pools(alg, a, b, allobjs):
    return alg.same(a, b, allobjs)


def holds(alg, cond, env, allobjs):
    """S.holds with object identity resolved over the union of pools."""
    return S.holds(alg, cond, env, allobjs)


def expr_value(o, env):
    return S.operand_value(o, env)


def row_matches(alg, row, sigma, spec, pools, allobjs):
    """Row r is the projection of assignment sigma (variable columns concrete, expression columns by value)."""
    env = env_of(sigma, spec, pools)
    terms = []
    for c, o in zip(row, spec["select"]):
        if o[0] == "v":
            if c != sigma[o[1]]:
                return alg.const(False)
        elif o[0] in ("ra",):
            terms.append(same_with_pools(alg, c, expr_value(o, env), allobjs))
        else:
            if not _intlike(c):
                return alg.const(False)  # a cell of the wrong kind matches no assignment
            terms.append(alg.int_eq(c, expr_value(o, env)))
    return alg.and_(*terms)


def _intlike(c):
    from .values import SInt
    return isinstance(c, SInt) or (isinstance(c, int) and not isinstance(c, bool))


def row_obligations(alg, rows, spec, pools, sat_fn, demand_no_dup=None, prefix=""):
    """Soundness + completeness of a row set against the satisfying assignments.

    sat_fn(sigma) -> term: the reference truth of the query condition under assignment sigma."""
    allobjs = [o for p in pools.values() for o in p]
    sigmas = list(assignments(spec, pools))
    sat = {tuple(s.items()): sat_fn(s) for s in sigmas}
    obs = []
    bad = [r for r in rows if any(o[0] == "v" and c < 0 for c, o in zip(r, spec["select"]))]
    obs.append((prefix + "cells_are_domain_members", alg.const(not bad)))
    for k, r in enumerate(rows):
        just = [alg.and_(sat[tuple(s.items())], row_matches(alg, r, s, spec, pools, allobjs)) for s in sigmas]
        obs.append((prefix + "row_%d_is_a_satisfying_assignment" % k, alg.or_(*just)))
    for s in sigmas:
        found = [row_matches(alg, r, s, spec, pools, allobjs) for r in rows]
        obs.append((prefix + "assignment_%s_returned_iff_satisfying" % "_".join("%s%d" % kv for kv in s.items()),
                    alg.implies(sat[tuple(s.items())], alg.or_(*found))))
    selected_vars = {o[1] for o in spec["select"] if o[0] == "v"}
    all_selected = selected_vars == set(spec["vars"].keys())
    if demand_no_dup is None:
        demand_no_dup = all_selected
    if demand_no_dup and all_selected:
        keys = [tuple(c for c, o in zip(r, spec["select"]) if o[0] == "v") for r in rows]
        obs.append((prefix + "no_row_twice_when_all_selected", alg.const(len(keys) == len(set(keys)))))
    return obs
