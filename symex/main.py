"""Entry point: python -m symex.main <Cxx> [--tier quick|thorough] | replay <file>"""
from __future__ import annotations

import argparse
import os
import sys


def main(argv=None) -> int:
    argv = list(sys.argv[1:] if argv is None else argv)
    if argv and argv[0] == "replay":
        from .runner import replay_file
        return replay_file(argv[1])
    ap = argparse.ArgumentParser()
    ap.add_argument("prop")
    ap.add_argument("--tier", default=os.environ.get("VERIF_TIER", "quick"), choices=["quick", "thorough"])
    ap.add_argument("--seed", type=int, default=int(os.environ.get("VERIF_SEED", "0") or 0))
    a = ap.parse_args(argv)
    from .runner import run_property
    return run_property(a.prop.upper(), a.tier, a.seed)


if __name__ == "__main__":
    sys.exit(main())
