"""C20 - the result-cache index returns exactly the stored entries matching a lookup.

IndexedCache is driven directly.  The structure hashes its values, so bindings are concretised by solver-checked forking
(ctx.choose): every insert sequence / lookup within the bound is explored; a reference list-of-(binding, output) model is
compared after the operations.  Data-independence: the index only hashes values and tests them for equality, so an
alphabet of I+1 values per key covers every history of I inserts and one lookup over ANY value domain.
"""
from __future__ import annotations

import json

from symex.case import Case
from symex.explorer import PathPruned
from entity_query_language.cache_data import IndexedCache
from entity_query_language.hashed_data import HashedValue

ASSUMPTIONS = [
    "keys are small ints given in arbitrary order; per insert each key is absent or bound to one of I+1 values "
    "(data-independence: the index only hashes and compares values); the ALL sentinel is not a user value",
    "the all-absent binding is not inserted (it goes to the flat cache by design and is not part of the index)",
    "coverage check is only demanded for lookups binding at least one key (as the property states)",
    "last write wins for two inserts under the same binding",
    "value indices are introduced in canonical order (the n-th distinct value of a key gets index n): symmetric renamings "
    "are not re-explored",
]
BOUNDS = {"quick": dict(keys="<=3 (unsorted and duplicated key lists included)", inserts="<=3 for <=2 keys, <=2 for 3 keys", values_per_key="I+1", value_kinds="int, HashedValue"),
          "thorough": dict(keys="<=3", inserts="<=4 for <=2 keys, <=3 for 3 keys", values_per_key="I+1", value_kinds="int, HashedValue")}
LIMITS = {"quick": dict(max_paths=400000, max_wall=500), "thorough": dict(max_paths=5000000, max_wall=3300)}
FIDELITY = {"quick": "first", "thorough": "first"}
WALL_BUDGET = {"quick": 560, "thorough": 3500}
TASKS_PER_CHILD = 1


def canon(binding):
    return sorted((k, _v(v)) for k, v in binding.items())


def _v(v):
    if isinstance(v, HashedValue):
        return ["HV", v.id_]
    if v is None or v == () or v == "":
        return ["py", repr(v)]
    return v


class C20(Case):
    prop = "C20"

    def _val(self, key, idx):
        if self.spec.get("values") == "hashed":
            return self._hv[(key, idx)]
        if self.spec.get("values") == "falsy":
            return [0, "", None, (), 7, 8][idx]   # bound values that are falsy (no False next to 0: they are the same dict key)
        return 10 * key + idx

    def run(self, mk):
        sp = self.spec
        keys_in = sp["keys"]
        K = sorted(set(keys_in))
        I = sp["inserts"]
        A = I + 1
        self._hv = {(k, i): HashedValue(value="tok%d_%d" % (k, i), id_=1000 + 10 * k + i) for k in K for i in range(A)}
        cache = IndexedCache()
        cache.keys = list(keys_in)
        ref = []  # (binding dict, output)
        first = sp.get("first")  # optional fixed choices for the first insert (work partition)
        ev = []
        used = {k: 0 for k in K}  # data-independence: a value index may exceed the ones used so far by at most one
        try:
            for n in range(I):
                b = {}
                for k in K:
                    if first is not None and n == 0:
                        c = first[K.index(k)]
                    else:
                        c = mk.choice("ins%d.k%d" % (n, k), min(A + 1, used[k] + 2))
                    if c > 0:
                        b[k] = self._val(k, c - 1)
                        used[k] = max(used[k], c)
                if not b:
                    raise PathPruned()
                out = "out%d" % n
                cache.insert(dict(b), out)
                ref = [(rb, ro) for rb, ro in ref if canon(rb) != canon(b)] + [(b, out)]
                ev.append(["insert", canon(b), out])
            look = {}
            for k in K:
                c = mk.choice("look.k%d" % k, min(A + 1, used[k] + 2))
                if c > 0:
                    look[k] = self._val(k, c - 1)
            extra = sp.get("extra_lookup_key")
            if extra:
                look[99] = 7  # a key the cache does not index: must be ignored by check, kept by retrieve
            chk = cache.check(dict(look))
            got = [[canon(r), o] for r, o in cache.retrieve(dict(look))]
            ev.append(["check", canon(look), bool(chk)])
            ev.append(["retrieve", canon(look), sorted(got, key=json.dumps)])
            chk2 = cache.check(dict(look))
            ev.append(["check_again", bool(chk2)])
            cache.clear()
            ev.append(["after_clear", bool(cache.check(dict(look))) if look else False,
                       len(list(cache.retrieve(dict(look)))) if True else 0])
        except PathPruned:
            raise
        except Exception as e:
            ev.append(["exc", type(e).__name__, str(e)[:200]])
        return dict(ref=ref, look=locals().get("look", {}), K=K), ev

    def obligations(self, alg, data, ev):
        obs = []
        ref, look, K = data["ref"], data["look"], data["K"]
        look_idx = {k: v for k, v in look.items() if k in K}
        for e in ev:
            if e[0] == "exc":
                obs.append(("no_exception:%s:%s" % (e[1], e[2][:80]), alg.const(False)))
            elif e[0] in ("check", "check_again"):
                if look_idx:
                    want = any(all(k in look_idx and _v(look_idx[k]) == _v(v) for k, v in b.items()) for b, _ in ref)
                    got = e[2] if e[0] == "check" else e[1]
                    obs.append((e[0] + "_iff_some_stored_binding_is_contained_in_the_lookup", alg.const(got == want)))
            elif e[0] == "retrieve":
                want = []
                for b, o in ref:
                    if all(_v(look[k]) == _v(v) for k, v in b.items() if k in look):
                        merged = dict(look)
                        merged.update(b)
                        want.append([canon(merged), o])
                want = sorted(want, key=json.dumps)
                got = e[2]
                missing = [w for w in want if w not in got]
                extra = [g for g in got if g not in want]
                obs.append(("retrieve_returns_every_matching_entry:missing=%d" % len(missing), alg.const(not missing)))
                obs.append(("retrieve_returns_nothing_else:extra=%d" % len(extra), alg.const(not extra)))
                obs.append(("retrieve_returns_each_entry_once", alg.const(len(got) == len({json.dumps(g) for g in got}))))
            elif e[0] == "after_clear":
                obs.append(("clear_empties_the_index", alg.const(e[1] is False and e[2] == 0)))
        if not obs:
            obs.append(("reached", alg.const(True)))
        return obs


def make_case(spec):
    return C20(spec)


def shapes(tier, seed):
    out = []
    import itertools
    for keys in ([5], [3, 1]):
        for I in (1, 2):
            out.append(dict(keys=keys, inserts=I, values="falsy"))
    for values in ("int", "hashed"):
        for keys in ([5], [3, 1], [1, 3], [2, 2, 1]):
            nk = len(set(keys))
            for I in ((1, 2, 3) if (tier == "quick" and nk <= 2) else (1, 2) if tier == "quick" else (1, 2, 3, 4) if nk <= 2 else (1, 2, 3)):
                out.append(dict(keys=keys, inserts=I, values=values))
        # three keys: partition on the first insert's binding so that workers share the space
        for keys in ([3, 1, 2],):
            for I in ((1, 2) if tier == "quick" else (1, 2, 3)):
                A = I + 1
                for first in itertools.product(range(A + 1), repeat=3):
                    if not any(first):
                        continue
                    # data-independence: the first insert may use value index 0 only (renaming)
                    if any(c > 1 for c in first):
                        continue
                    out.append(dict(keys=keys, inserts=I, values=values, first=list(first)))
        out.append(dict(keys=[1, 3], inserts=2, values=values, extra_lookup_key=True))
    return out


# ---------------------------------------------------------------------------------------------- twins
def _twin_wildcard_shadows_concrete():
    """The defect repaired in IndexedCache.retrieve, re-introduced: prefer the wildcard branch and skip concrete siblings."""
    from entity_query_language import cache_data as cd
    from entity_query_language.utils import All
    from copy import copy

    def retrieve(self, assignment=None, cache=None, key_idx=0, result=None, from_index=True):
        if not from_index:
            for v in self.flat_cache:
                yield {}, v
            return
        if result is None:
            result = copy(assignment)
        if cache is None:
            cache = self.cache
        if isinstance(cache, cd.CacheDict) and not cache:
            return
        keys = self.keys
        n_keys = len(keys)
        key = keys[key_idx]
        while key in assignment:
            next_cache = cache.get(assignment[key])
            if next_cache is None:
                wildcard = cache.get(All)
                if wildcard is not None:
                    yield from self._yield_result(assignment, wildcard, key_idx, result)
                return
            cache = next_cache
            if key_idx + 1 < n_keys:
                key_idx += 1
                key = keys[key_idx]
            else:
                break
        if key not in assignment:
            wildcard = cache.get(All)
            if wildcard is not None:
                yield from self._yield_result(assignment, wildcard, key_idx, result)
            else:
                for cache_key, cache_val in cache.items():
                    local_result = copy(result)
                    local_result[key] = cache_key
                    yield from self._yield_result(assignment, cache_val, key_idx, local_result)
        else:
            yield result, cache
    cd.IndexedCache.retrieve = retrieve


def _twin_insert_aliases_assignment():
    from entity_query_language import cache_data as cd
    orig = cd.SeenSet.check
    cd.SeenSet.check = lambda self, assignment: any(all(assignment.get(k) == v for k, v in c.items()) or True for c in self.seen)


def _twin_check_any():
    from entity_query_language import cache_data as cd

    def check(self, assignment):
        if self.all_seen:
            return True
        if not assignment:
            return False
        for constraint in self.seen:
            if any(assignment[k] == v if k in assignment else False for k, v in constraint.items()):
                return True
        return False
    cd.SeenSet.check = check


def _twin_clear_forgets_seen_set():
    from entity_query_language import cache_data as cd

    def clear(self):
        self.cache.clear()
        self.flat_cache.clear()
    cd.IndexedCache.clear = clear


TWINS = {
    "wildcard_branch_shadows_concrete_siblings": dict(apply=_twin_wildcard_shadows_concrete,
                                                      specs=lambda t: [dict(keys=[3, 1], inserts=2, values="int")]),
    "coverage_check_any_instead_of_all": dict(apply=_twin_check_any, specs=lambda t: [dict(keys=[3, 1], inserts=1, values="int")]),
    "clear_keeps_coverage": dict(apply=_twin_clear_forgets_seen_set, specs=lambda t: [dict(keys=[5], inserts=1, values="int")]),
}
