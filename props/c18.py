"""C18 - meaning-preserving rewrites of a query do not change its result set."""
from __future__ import annotations

import copy
import json
import random

from symex.case import Case
from symex import eqlshapes as S
from symex import querycase as Q
from symex.eqlshapes import an, entity, set_of, let, symbolic_mode, and_
from entity_query_language import for_all
from symex.alg import MIRROR
from props.c02 import xy_leaves, single_leaves

ASSUMPTIONS = [
    "q and rewrite(q) are evaluated in the same path on the same symbolic data; their row sets (rows keyed by variable, so "
    "selection order does not matter) are compared concretely AND each is proved equal to the reference",
    "rewrites: swap and_/or_ operands; re-associate / flatten chains (and_(a,b,c), a & (b & c), (a & b) & c, several conditions "
    "passed to entity/set_of); mirror a comparison; contains(c,i) <-> in_(i,c); permute variable declaration order, selection "
    "order and the elements of a domain",
]
BOUNDS = {"quick": dict(domains="3 / 2x2", base_queries="L<=3 chains and L<=2 trees; selections mixing expressions and variables", rewrites="every single rewrite at every position; "
                        "sampled pairs"),
          "thorough": dict(domains="3 / 2x2", rewrites="compositions of <=3 rewrites")}
LIMITS = {"quick": dict(max_paths=10000, max_wall=90), "thorough": dict(max_paths=100000, max_wall=600)}
FIDELITY_EVERY = {"quick": 4, "thorough": 3}
WALL_BUDGET = {"quick": 480, "thorough": 3300}

ONE = dict(pools={"X": 3}, vars={"x": "X"}, select=[["v", "x"]])
TWO = dict(pools={"X": 2, "Y": 2}, refs={"X": "Y"}, vars={"x": "X", "y": "Y"}, select=[["v", "x"], ["v", "y"]])


# ------------------------------------------------------------------------------------------ rewrites
def _paths(c, path=()):
    yield path, c
    if c[0] in ("and", "or", "&", "|", "not", "~"):
        for i, s in enumerate(c[1:], 1):
            yield from _paths(s, path + (i,))


def _replace(c, path, new):
    if not path:
        return new
    c = list(c)
    c[path[0]] = _replace(c[path[0]], path[1:], new)
    return c


def single_rewrites(spec):
    """All single-step meaning-preserving rewrites of a query spec: [(name, new spec)]."""
    out = []
    cond = spec.get("cond")
    if cond:
        for path, node in _paths(cond):
            k = node[0]
            if k in ("and", "or", "&", "|") and len(node) == 3:
                out.append(("swap@%s" % (path,), dict(spec, cond=_replace(cond, path, [k, node[2], node[1]]))))
            if k in ("and", "or") and len(node) == 4:
                a, b, c = node[1:]
                op = "&" if k == "and" else "|"
                out.append(("right-assoc@%s" % (path,), dict(spec, cond=_replace(cond, path, [op, a, [op, b, c]]))))
                out.append(("left-assoc@%s" % (path,), dict(spec, cond=_replace(cond, path, [op, [op, a, b], c]))))
                out.append(("nested-call@%s" % (path,), dict(spec, cond=_replace(cond, path, [k, a, [k, b, c]]))))
                out.append(("rotate@%s" % (path,), dict(spec, cond=_replace(cond, path, [k, c, a, b]))))
            if k in ("and", "or") and len(node) == 3:
                op = "&" if k == "and" else "|"
                out.append(("operator-spelling@%s" % (path,), dict(spec, cond=_replace(cond, path, [op, node[1], node[2]]))))
            if k == "cmp" and not (S.is_obj_operand(node[2]) and node[1] not in ("eq", "ne")):
                out.append(("mirror@%s" % (path,), dict(spec, cond=_replace(cond, path, ["cmp", MIRROR[node[1]], node[3], node[2]]))))
            if k == "in":
                out.append(("in->contains@%s" % (path,), dict(spec, cond=_replace(cond, path, ["contains", node[2], node[1]]))))
            if k == "contains":
                out.append(("contains->in@%s" % (path,), dict(spec, cond=_replace(cond, path, ["in", node[2], node[1]]))))
        if cond[0] == "and" and not spec.get("multi"):
            out.append(("conditions-passed-separately", dict(spec, multi=True)))
    if spec.get("forall"):
        out.append(("quantifier-operand-position", dict(spec, forall_pos="first" if spec.get("forall_pos", "last") == "last" else "last")))
        if cond and not spec.get("multi"):
            out.append(("quantifier-passed-separately", dict(spec, multi=True)))
    if len(spec["vars"]) > 1:
        out.append(("declaration-order", dict(spec, vars=dict(reversed(list(spec["vars"].items()))))))
    if len(spec["select"]) > 1:
        out.append(("selection-order", dict(spec, select=list(reversed(spec["select"])))))
    for pn, n in spec["pools"].items():
        if n >= 2:
            perm = list(range(n))
            perm = perm[1:] + perm[:1]
            cur = spec.get("perm", {}).get(pn, list(range(n)))
            newp = dict(spec.get("perm", {}))
            newp[pn] = [cur[i] for i in perm]
            out.append(("rotate-domain-%s" % pn, dict(spec, perm=newp)))
            rev = dict(spec.get("perm", {}))
            rev[pn] = list(reversed(cur))
            out.append(("reverse-domain-%s" % pn, dict(spec, perm=rev)))
    return out


def build(spec, pools):
    with symbolic_mode():
        V = {}
        for v, p in spec["vars"].items():
            order = spec.get("perm", {}).get(p, list(range(len(pools[p]))))
            V[v] = let(type(pools[p][0]), domain=[pools[p][i] for i in order])
        sel = [S.build_operand(o, V) for o in spec["select"]]
        cond = spec.get("cond")
        if cond is None:
            conds = []
        elif spec.get("multi") and cond[0] == "and":
            conds = [S.build(s, V) for s in cond[1:]]
        else:
            conds = [S.build(cond, V)]
        fa = spec.get("forall")
        if fa:
            order = spec.get("perm", {}).get("U", list(range(len(pools["U"]))))
            Vu = dict(V)
            Vu["u"] = let(type(pools["U"][0]), domain=[pools["U"][i] for i in order])
            quant = for_all(Vu["u"], S.build(fa, Vu))
            conds = ([quant] + conds) if spec.get("forall_pos", "last") == "first" else (conds + [quant])
            if not spec.get("multi") and len(conds) > 1:
                conds = [and_(*conds)]
        if len(sel) == 1 and spec.get("form", "entity") == "entity":
            q = an(entity(sel[0], *conds))
        else:
            q = an(set_of(sel, *conds))
    return q, sel


def keyed_rows(rows, spec):
    # keyed by the VARIABLE columns; expression columns (symbolic values) are judged by the reference obligations only
    sel = spec["select"]
    return sorted({tuple(sorted((o[1], c) for o, c in zip(sel, r) if o[0] == "v")) for r in rows})


class C18(Case):
    prop = "C18"

    def run(self, mk):
        sp = self.spec
        base, rew = sp["base"], sp["rewritten"]
        pools = Q.make_pools(mk, dict(base, cond=["and", base["cond"], base["forall"]] if (base.get("forall") and base.get("cond"))
                                      else (base.get("forall") or base.get("cond"))))
        data = dict(pools=pools)
        out = {}
        try:
            for tag, s in (("original", base), ("rewritten", rew)):
                q, sel = build(s, pools)
                form = "entity" if (len(sel) == 1 and s.get("form", "entity") == "entity") else "set_of"
                rows = Q.rows_of(list(q.evaluate()), sel, dict(s, form=form), pools)
                data[tag] = rows
                out[tag] = [list(map(list, r)) for r in keyed_rows(rows, s)]
        except Exception as e:
            return data, ["exc", type(e).__name__, str(e)[:200]]
        return data, out

    def obligations(self, alg, data, outcome):
        if isinstance(outcome, list) and outcome and outcome[0] == "exc":
            return [("no_exception:%s:%s" % (outcome[1], outcome[2][:80]), alg.const(False))]
        sp = self.spec
        pools = data["pools"]
        allobjs = [o for p in pools.values() for o in p]
        obs = [("same_row_set_after_%s" % "+".join(sp["names"]), alg.const(outcome["original"] == outcome["rewritten"]))]
        for tag, s in (("original", sp["base"]), ("rewritten", sp["rewritten"])):
            cond = s.get("cond")

            def sat(sigma, s=s, cond=cond):
                env = Q.env_of(sigma, s, pools)
                t = Q.holds(alg, cond, env, allobjs) if cond else alg.const(True)
                if s.get("forall"):
                    ts = []
                    for uo in pools["U"]:
                        e2 = dict(env)
                        e2["u"] = uo
                        ts.append(Q.holds(alg, s["forall"], e2, allobjs))
                    t = alg.and_(t, *ts)
                return t
            obs += Q.row_obligations(alg, data[tag], s, pools, sat, demand_no_dup=False, prefix=tag + ":")
        return obs


def make_case(spec):
    return C18(spec)


def base_queries(tier, rnd):
    core = S.core_leaves("x")
    out = []
    for l1 in core:
        for l2 in core:
            if l1 is l2:
                continue
            for op in ("and", "or"):
                if tier == "thorough" or rnd.random() < 0.25:
                    out.append(dict(ONE, cond=[op, l1, l2]))
    for tri in [(core[0], core[1], core[2]), (core[3], core[4], core[5]), (core[6], core[0], core[7]), (core[1], core[4], core[2])]:
        for op in ("and", "or"):
            out.append(dict(ONE, cond=[op] + list(tri)))
    out.append(dict(ONE, cond=["or", ["and", core[0], core[1]], ["not", core[2]]]))
    out.append(dict(ONE, cond=["and", ["or", core[0], core[4]], ["or", core[1], core[3]]]))
    out.append(dict(ONE, cond=["in", ["a", "x", "a"], ["s", "x"]]))
    out.append(dict(ONE, cond=["contains", ["tt", "x"], ["a", "x", "b"]]))
    out.append(dict(ONE, cond=["not", ["in", ["a", "x", "c"], ["s", "x"]]]))
    for l in S.leaf_vocabulary("x", rich=False)[:18:3]:
        out.append(dict(ONE, cond=l))
    J, SX, SY = xy_leaves(), single_leaves("x"), single_leaves("y")
    for l in J:
        out.append(dict(TWO, cond=l))
    for (a, b) in [(J[0], SY[0]), (J[3], SX[0]), (SX[0], SY[0]), (J[0], J[4]), (J[6], SY[1]), (SX[1], J[1])]:
        for op in ("and", "or"):
            out.append(dict(TWO, cond=[op, a, b]))
    for tri in [(J[0], SX[0], SY[0]), (J[3], J[4], SY[1]), (SX[0], SY[0], J[1])]:
        for op in ("and", "or"):
            out.append(dict(TWO, cond=[op] + list(tri)))
    out.append(dict(TWO, cond=["and", ["or", SX[0], SY[0]], ["or", SX[1], SY[1]]]))
    # one variable only EXISTENTIAL (mentioned by the conditions, not selected): or_ whose first disjunct is a conjunction of a
    # join and a condition on the selected variable
    EQxy = ["cmp", "eq", ["a", "y", "a"], ["a", "x", "a"]]
    for c in (["or", ["and", J[3], SX[1]], J[4]],):
        out.append(dict(TWO, pools={"X": 2, "Y": 3}, select=[["v", "x"]], cond=c, form="set_of"))
    out.append(dict(TWO, cond=None))
    # selected EXPRESSIONS derived from a variable, before / after the variable itself, the variable free or bound by conditions
    XA, XB = ["a", "x", "a"], ["a", "x", "b"]
    out.append(dict(ONE, select=[XA, ["v", "x"]], cond=None, form="set_of"))
    out.append(dict(ONE, select=[XA, ["v", "x"]], cond=core[0], form="set_of"))
    out.append(dict(TWO, select=[XA, ["v", "x"], ["v", "y"]], cond=None))
    out.append(dict(TWO, select=[XA, ["v", "x"], ["v", "y"]], cond=SY[0]))
    out.append(dict(TWO, select=[XA, ["v", "y"], ["v", "x"]], cond=J[0]))
    out.append(dict(TWO, select=[XA, ["a", "y", "a"], ["v", "x"], ["v", "y"]], cond=SY[0]))
    out.append(dict(TWO, select=[XB, XA, ["v", "x"]], cond=SY[0]))
    # a universally quantified condition (its domain can be permuted, it can stand on either side of and_)
    FA = dict(pools={"X": 3, "U": 3}, classes={"U": "Other"}, vars={"x": "X"}, select=[["v", "x"]])
    for fc in (["cmp", "gt", ["a", "x", "a"], ["a", "u", "a"]], ["cmp", "ne", ["a", "x", "b"], ["a", "u", "b"]]):
        out.append(dict(FA, cond=["cmp", "gt", ["a", "x", "c"], ["lit", 0]], forall=fc))
        out.append(dict(FA, cond=None, forall=fc))
    # three variables, partial selections, chains whose inner disjunction does not mention the outer variable
    THREE = dict(pools={"X": 2, "Y": 2, "W": 2}, classes={"W": "Other"}, refs={"X": "Y"}, vars={"x": "X", "y": "Y", "w": "W"})
    SW = ["cmp", "gt", ["a", "w", "a"], ["lit", 0]]
    XW = ["cmp", "lt", ["a", "x", "c"], ["a", "w", "c"]]
    YW = ["cmp", "eq", ["a", "y", "b"], ["a", "w", "b"]]
    sels3 = [[["v", "x"]], [["v", "x"], ["v", "y"]], [["v", "x"], ["v", "y"], ["v", "w"]], [["v", "w"], ["v", "x"]]]
    tris = [(SW, ["or", SX[0], J[3]], XW), (XW, ["or", SX[0], SY[0]], YW), (J[0], YW, SW), (SW, J[3], ["or", XW, SY[0]])]
    if tier == "quick":
        sels3, tris = sels3[:2], tris[:2]
    # a bare variable as comparison operand in both alternatives of a disjunction over three variables (each comparison gets
    # mirrored by the rewrites)
    YR = ["cmp", "eq", ["v", "y"], ["ra", "x"]]
    for c in (["or", ["and", SW, YR], ["and", YR, SX[0]]], ["or", ["and", SW, YR], ["cmp", "ne", ["v", "y"], ["ra", "x"]]],
              ["or", ["and", YR, SW], ["and", SX[0], YR]], ["and", ["or", SW, YR], ["or", YR, SX[0]]]):
        out.append(dict(THREE, select=[["v", "w"], ["v", "x"], ["v", "y"]], cond=c))
    for sel in sels3:
        for tri in tris:
            out.append(dict(THREE, select=sel, cond=["and"] + list(tri)))
        if tier != "quick":
            out.append(dict(THREE, select=sel, cond=["or", ["and", J[0], YW], SW]))
    return out


def shapes(tier, seed):
    rnd = random.Random(seed)
    out = []
    for b in base_queries(tier, rnd):
        singles = single_rewrites(b)
        for name, r in singles:
            out.append(dict(base=b, rewritten=r, names=[name]))
        # compositions
        k = 3 if tier == "quick" else 12
        for _ in range(k):
            cur, names = b, []
            for _step in range(2 if tier == "quick" else 3):
                opts = single_rewrites(cur)
                if not opts:
                    break
                n, cur = rnd.choice(opts)
                names.append(n)
            out.append(dict(base=b, rewritten=cur, names=names))
    seen, uniq = set(), []
    for s in out:
        k_ = json.dumps([s["base"], s["rewritten"]], sort_keys=True)
        if k_ not in seen:
            seen.add(k_)
            uniq.append(s)
    return uniq


def _twin_elseif_order_sensitive():
    """or_ returns only the rows of its left operand when that operand is a comparison with a literal on the right."""
    from entity_query_language import symbolic as sym
    orig = sym.ElseIf._evaluate__

    def ev(self, sources=None, yield_when_false=False):
        for out in orig(self, sources, yield_when_false):
            if self.left._is_false_ and not self._is_false_ and isinstance(self.right, sym.Comparator) and \
                    isinstance(self.right.right, sym.Literal) and not yield_when_false:
                continue
            yield out
    sym.ElseIf._evaluate__ = ev


def _twin_reflected_lt_wrong():
    """A reflected comparison (literal on the left) uses the un-mirrored operator."""
    import operator
    from entity_query_language import symbolic as sym
    sym.CanBehaveLikeAVariable.__gt__ = lambda self, other: sym.Comparator(self, other, operator.ge)


def _twin_domain_order_matters():
    from entity_query_language import symbolic as sym
    orig = sym.Variable.__iter__

    def it(self):
        vals = list(orig(self))
        if len(vals) >= 3:
            first = vals[0][self._id_].value
            if getattr(first, "name", "").endswith("1"):
                vals = vals[:-1]
        yield from vals
    sym.Variable.__iter__ = it


_c = S.core_leaves("x")
TWINS = {
    "or_depends_on_operand_order": dict(apply=_twin_elseif_order_sensitive,
                                        specs=lambda t: [dict(base=dict(ONE, cond=["or", _c[0], _c[1]]), names=["swap"],
                                                              rewritten=dict(ONE, cond=["or", _c[1], _c[0]]))]),
    "mirrored_comparison_uses_wrong_operator": dict(apply=_twin_reflected_lt_wrong,
                                                    specs=lambda t: [dict(base=dict(ONE, cond=["cmp", "lt", ["lit", 2], ["a", "x", "c"]]), names=["mirror"],
                                                                          rewritten=dict(ONE, cond=["cmp", "gt", ["a", "x", "c"], ["lit", 2]]))]),
    "result_depends_on_domain_order": dict(apply=_twin_domain_order_matters,
                                           specs=lambda t: [dict(base=dict(ONE, cond=_c[0]), names=["rotate-domain"],
                                                                 rewritten=dict(ONE, cond=_c[0], perm={"X": [1, 2, 0]}))]),
}
