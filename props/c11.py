"""C11 - rule inference builds one instance per satisfying binding, from that binding."""
from __future__ import annotations

import json
import random

from symex.case import Case
from symex import eqlshapes as S
from symex import querycase as Q
from symex.eqlshapes import Made, Item, Other, an, entity, let, symbolic_mode
from symex.values import SInt
from entity_query_language import rule_mode, infer, Add
from props.c02 import xy_leaves, single_leaves

ASSUMPTIONS = [
    "the head's argument expressions mention all variables of the rule (the property's scope)",
    "heads are flat: in this engine a nested T'(...) inside a rule head is a predicate-form variable over existing instances "
    "(C13/C14), not a construction, so it is not generated here",
    "the Add-conclusion spelling is only used with bodies that bind every rule variable on every satisfied branch",
    "object-valued fields are compared by identity with the pool objects; integer fields by proxy identity in the symbolic "
    "run and by value on plain replay; the number of instances must equal the number of satisfying assignments",
]
BOUNDS = {"quick": dict(domains="2x2 / 3", head_fields="<=3 incl. nested constructor and constants", bodies="L<=2 with or/not; every comparison operator negated"),
          "thorough": dict(domains="3x2 / 3", head_fields="<=3", bodies="L<=3 sampled")}
LIMITS = {"quick": dict(max_paths=8000, max_wall=90), "thorough": dict(max_paths=60000, max_wall=400)}
FIDELITY_EVERY = {"quick": 3, "thorough": 2}
WALL_BUDGET = {"quick": 420, "thorough": 3000}

BASE2 = dict(pools={"X": 2, "Y": 2}, refs={"X": "Y"}, vars={"x": "X", "y": "Y"}, select=[["v", "x"], ["v", "y"]])
BASE1 = dict(pools={"X": 3}, vars={"x": "X"}, select=[["v", "x"]])


def build_head(h, V):
    """h = {"src": operand|["new", h2]|["const", c], ...}"""
    kw = {}
    for f, o in h.items():
        if o[0] == "new":
            kw[f] = build_head_obj(o[1], V)
        elif o[0] == "const":
            kw[f] = o[1]
        else:
            kw[f] = S.build_operand(o, V)
    return kw


def build_head_obj(h, V):
    return Made(**build_head(h, V))


def field_matches(alg, got, o, env, allobjs):
    if o[0] == "new":
        if type(got) is not Made:
            return alg.const(False)
        return alg.and_(*[field_matches(alg, getattr(got, f, None), oo, env, allobjs) for f, oo in o[1].items()])
    if o[0] == "const":
        return alg.const(type(got) is type(o[1]) and got == o[1])
    want = S.operand_value(o, env)
    if o[0] in ("v",):
        return alg.const(got is want)
    if o[0] == "ra":
        from symex.values import SRef
        if alg.symbolic:
            return alg.const(got is want)  # the very reference value is passed on
        return alg.const(got is want)
    # integer-valued expression
    if o[0] == "c":
        # a method call computes a NEW value: compared by value
        return alg.int_eq(got, want) if Q._intlike(got) else alg.const(False)
    if alg.symbolic:
        return alg.const(got is want)
    return alg.const(isinstance(got, int) and not isinstance(got, bool) and got == want)


class C11(Case):
    prop = "C11"

    def run(self, mk):
        sp = self.spec
        pools = Q.make_pools(mk, sp)
        data = dict(pools=pools, made=None)
        try:
            if sp.get("spelling", "infer") == "infer":
                with rule_mode():
                    V = Q.declare_vars(sp, pools)
                    head = build_head_obj(sp["head"], V)
                    conds = [S.build(sp["cond"], V)] if sp.get("cond") else []
                    if sp.get("forall"):
                        # a universally quantified conjunct AFTER the other conditions (it may stop early on a failing value)
                        from entity_query_language import for_all
                        Vu = dict(V)
                        Vu["u"] = let(S.Other, domain=pools["U"])
                        conds.append(for_all(Vu["u"], S.build(sp["forall"], Vu)))
                    q = infer(entity(head, *conds))
            else:
                with symbolic_mode():
                    V = Q.declare_vars(sp, pools)
                    conds = [S.build(sp["cond"], V)] if sp.get("cond") else []
                    q = an(entity(m := let(Made), *conds))
                with rule_mode(q):
                    Add(m, build_head_obj(sp["head"], V))
            made = list(q.evaluate())
            if sp.get("twice"):
                made2 = list(q.evaluate())
                data["made2"] = made2
        except Exception as e:
            return data, ["exc", type(e).__name__, str(e)[:200]]
        data["made"] = made
        return data, [[type(m).__name__, self._src_idx(m, pools)] for m in made]

    def _view_fields(self):
        return [f for f, o in self.spec["head"].items() if o[0] == "v"]

    def _src_idx(self, m, pools):
        out = []
        for f in self._view_fields():
            v = getattr(m, f, None)
            for pn, p in pools.items():
                for j, o in enumerate(p):
                    if o is v:
                        out.append("%s=%s%d" % (f, pn, j))
        return out

    def obligations(self, alg, data, outcome):
        if outcome and outcome[0] == "exc":
            return [("no_exception:%s:%s" % (outcome[1], outcome[2][:80]), alg.const(False))]
        sp = self.spec
        pools = data["pools"]
        allobjs = [o for p in pools.values() for o in p]
        sigmas = list(Q.assignments(sp, pools))
        cond = sp.get("cond")
        sat = [Q.holds(alg, cond, Q.env_of(s, sp, pools), allobjs) if cond else alg.const(True) for s in sigmas]
        if sp.get("forall"):
            sat = [alg.and_(t, *[Q.holds(alg, sp["forall"], dict(Q.env_of(s, sp, pools), u=uo), allobjs) for uo in pools["U"]])
                   for t, s in zip(sat, sigmas)]
        obs = []
        for tag, made in (("", data["made"]),) + ((("re-eval:", data["made2"]),) if "made2" in data else ()):
            obs.append((tag + "all_are_new_real_instances_of_the_head_class",
                        alg.const(all(type(m) is Made for m in made) and len({id(m) for m in made}) == len(made)
                                  and not any(m is o for m in made for o in allobjs))))
            match = [[field_matches(alg, m, ["new", sp["head"]], Q.env_of(s, sp, pools), allobjs) for s in sigmas] for m in made]
            for k, m in enumerate(made):
                obs.append((tag + "instance_%d_built_from_one_satisfying_assignment" % k,
                            alg.or_(*[alg.and_(sat[i], match[k][i]) for i in range(len(sigmas))])))
            for i, s in enumerate(sigmas):
                obs.append((tag + "assignment_%s_has_its_instance" % "_".join("%s%d" % kv for kv in s.items()),
                            alg.implies(sat[i], alg.or_(*[match[k][i] for k in range(len(made))]))))
            obs.append((tag + "exactly_one_instance_per_satisfying_assignment", alg.int_eq(alg.count(sat), len(made))))
        return obs


def make_case(spec):
    return C11(spec)


def heads2():
    X, Y = ["v", "x"], ["v", "y"]
    return [
        dict(src=X, val=Y),
        dict(src=Y, val=X),
        dict(src=X, val=["a", "y", "a"]),
        dict(src=["a", "x", "b"], val=["a", "y", "a"]),
        dict(src=X, val=Y, extra=["const", 7]),
        dict(src=X, val=["const", 0], extra=Y),
        dict(src=X, val=["const", None], extra=["a", "y", "b"]),
        dict(src=["a", "x", "a"], val=["a", "x", "b"], extra=Y),
        dict(src=X, val=["ra", "x"], extra=Y),
        dict(src=["a", "y", "a"], val=X, extra=Y),      # an expression over y BEFORE y itself
        dict(src=["a", "x", "c"], val=["a", "y", "c"], extra=X),
        dict(src=X, val=["c", "y", 0], extra=Y),         # a method call with a falsy argument as head field
    ]


def heads1():
    X = ["v", "x"]
    return [dict(src=X), dict(src=X, val=["a", "x", "a"]), dict(src=["a", "x", "a"], val=["a", "x", "b"], extra=X),
            dict(src=X, val=["const", ""]), dict(src=X, val=["c", "x", 0]), dict(src=X, val=["c", "x", 2], extra=["a", "x", "b"])]


def shapes(tier, seed):
    rnd = random.Random(seed)
    out = []
    J, SX, SY = xy_leaves(), single_leaves("x"), single_leaves("y")
    bodies2 = [J[0], J[3], ["and", J[0], SY[0]], ["or", J[3], SY[0]], ["not", J[4]], ["and", SX[0], SY[1]],
               ["or", SX[0], SY[0]], None, SY[0], SX[1]]
    for h in heads2():
        for b in bodies2:
            if tier == "thorough" or b is None or b in (SY[0], SX[1]) or rnd.random() < 0.55:
                out.append(dict(BASE2, head=h, cond=b))
        # the Add spelling is exercised only with bodies that bind every rule variable on every satisfied branch (an Add
        # conclusion takes one value per body solution; what an unbound variable means there is C12's business, not C11's)
        for b in (J[3], ["and", J[0], SY[0]], ["and", SX[0], J[3]], ["not", J[4]]):
            out.append(dict(BASE2, head=h, cond=b, spelling="add"))
    # negated bodies: every comparison operator under not_, a negated conjunction and a double negation
    for i, op in enumerate(("lt", "le", "gt", "ge", "eq", "ne")):
        neg = ["not", ["cmp", op, ["a", "x", "a"], ["a", "y", "a"]]]
        out.append(dict(BASE2, head=heads2()[i % len(heads2())], cond=neg))
        out.append(dict(BASE1, head=heads1()[i % len(heads1())], cond=["not", ["cmp", op, ["a", "x", "a"], ["a", "x", "b"]]]))
    out.append(dict(BASE2, head=heads2()[0], cond=["not", ["and", SX[0], J[3]]]))
    out.append(dict(BASE2, head=heads2()[1], cond=["not", ["or", SY[0], ["cmp", "gt", ["a", "x", "b"], ["a", "y", "b"]]]]))
    out.append(dict(BASE2, head=heads2()[0], cond=["not", ["not", SX[0]]]))
    # three variables: chains where the right conjunct introduces a variable the left does not bind
    B3 = dict(pools={"X": 2, "Y": 2, "W": 2}, classes={"W": "Other"}, refs={"X": "Y"}, vars={"x": "X", "y": "Y", "w": "W"},
              select=[["v", "x"], ["v", "y"], ["v", "w"]])
    h3 = [dict(src=["v", "x"], val=["v", "y"], extra=["v", "w"]), dict(src=["v", "w"], val=["a", "x", "a"], extra=["v", "y"])]
    eq = lambda a, b: ["cmp", "eq", ["a", a, "a"], ["a", b, "a"]]
    c3 = [["and", eq("x", "w"), eq("x", "y")], ["and", eq("x", "y"), ["cmp", "lt", ["a", "y", "b"], ["a", "w", "b"]]],
          ["and", ["cmp", "eq", ["ra", "x"], ["v", "y"]], eq("y", "w")], ["or", eq("x", "w"), eq("x", "y")],
          ["and", eq("x", "w"), ["or", eq("x", "y"), ["cmp", "gt", ["a", "y", "b"], ["lit", 0]]]]]
    for h in h3:
        for c in c3:
            out.append(dict(B3, head=h, cond=c))
    # a rule over a domain that holds no instance of its type, while such instances exist elsewhere: nothing is inferred
    EMPTY = dict(pools={"X": 2, "Y": 0}, vars={"x": "X", "y": "Y"}, select=[["v", "x"], ["v", "y"]], outside={"Other": 2})
    for h in heads2()[:4]:
        for b in (J[3], SX[0], None):
            if not any(o[0] == "ra" for o in h.values()):
                out.append(dict(EMPTY, head=h, cond=b))
    # a universally quantified conjunct in the rule body
    FA1 = dict(pools={"X": 3, "U": 2}, classes={"U": "Other"}, vars={"x": "X"}, select=[["v", "x"]])
    for fc in (["cmp", "gt", ["a", "x", "a"], ["a", "u", "a"]], ["cmp", "le", ["a", "u", "b"], ["a", "x", "b"]]):
        out.append(dict(FA1, head=heads1()[1], cond=["cmp", "gt", ["a", "x", "c"], ["lit", 0]], forall=fc))
        out.append(dict(FA1, head=heads1()[0], cond=None, forall=fc))
        out.append(dict(FA1, pools={"X": 3, "U": 3}, head=heads1()[1], cond=["cmp", "gt", ["a", "x", "c"], ["lit", 0]], forall=fc))
    core = S.core_leaves("x")
    bodies1 = core[:5] + [["and", core[0], core[1]], ["or", core[0], core[2]], ["not", core[1]], None,
                          ["over", "x", 0], ["pv", ["a", "x", "b"], 0], ["cmp", "gt", ["c", "x", 0], ["a", "x", "b"]]]
    for h in heads1():
        for b in bodies1:
            if tier == "thorough" or b is None or b[0] in ("over", "pv") or '"c"' in json.dumps(b) or rnd.random() < 0.6:
                out.append(dict(BASE1, head=h, cond=b))
        out.append(dict(BASE1, head=h, cond=core[0], spelling="add"))
        out.append(dict(BASE1, head=h, cond=core[0], twice=True))
    if tier == "thorough":
        leaves = J[:5] + SX[:2] + SY[:2]
        skels = list(S.tree_skeletons(3))
        B32 = dict(pools={"X": 3, "Y": 2}, refs={"X": "Y"}, vars={"x": "X", "y": "Y"}, select=[["v", "x"], ["v", "y"]])
        for _ in range(250):
            c = S.fill(rnd.choice(skels), [rnd.choice(leaves) for _ in range(3)])
            out.append(dict(rnd.choice([BASE2, B32]), head=rnd.choice(heads2()), cond=rnd.choice(S.negation_variants(c))))
        core3 = S.core_leaves("x")[:5]
        for _ in range(120):
            c = S.fill(rnd.choice(skels), [rnd.choice(core3) for _ in range(3)])
            out.append(dict(BASE1, head=rnd.choice(heads1()), cond=rnd.choice(S.negation_variants(c)),
                            spelling=rnd.choice(["infer", "add"])))
    seen, uniq = set(), []
    for s in out:
        k = json.dumps(s, sort_keys=True)
        if k not in seen:
            seen.add(k)
            uniq.append(s)
    return uniq


def _twin_fields_from_first_binding():
    """Constructor arguments evaluated once and reused for every binding (fields of different assignments mixed)."""
    from entity_query_language import symbolic as sym
    orig = sym.Variable._generate_combinations_for_child_vars_values_
    memo = {}

    def gen(self, sources=None):
        if self._is_inferred_ and id(self) in memo:
            yield memo[id(self)]
            return
        for kw in orig(self, sources):
            if self._is_inferred_:
                memo.setdefault(id(self), kw)
            yield kw
    sym.Variable._generate_combinations_for_child_vars_values_ = gen


def _twin_instance_for_non_satisfying():
    from entity_query_language import symbolic as sym
    orig = sym.QueryObjectDescriptor._evaluate_

    def ev(self, selected_vars=None, sources=None, yield_when_false=False):
        yield from orig(self, selected_vars, sources, True if self.rule_mode else yield_when_false)
    sym.QueryObjectDescriptor._evaluate_ = ev


def _twin_copies_field_objects():
    from entity_query_language import symbolic as sym
    import copy as cp
    orig = sym.Variable._instantiate_new_values_and_yield_results_

    def inst(self, kwargs, sources=None):
        t = self._type_
        try:
            self._type_ = lambda **kw: t(**{k: (cp.copy(v) if isinstance(v, (Item, Other)) else v) for k, v in kw.items()})
            yield from orig(self, kwargs, sources)
        finally:
            self._type_ = t
    sym.Variable._instantiate_new_values_and_yield_results_ = inst


_J = xy_leaves()
TWINS = {
    "constructor_arguments_reused_across_bindings": dict(apply=_twin_fields_from_first_binding,
                                                         specs=lambda t: [dict(BASE2, head=dict(src=["v", "x"], val=["v", "y"]), cond=_J[3]),
                                                                          dict(BASE1, head=dict(src=["v", "x"]), cond=S.core_leaves("x")[0])]),
    "field_objects_copied_instead_of_reused": dict(apply=_twin_copies_field_objects,
                                                   specs=lambda t: [dict(BASE1, head=dict(src=["v", "x"]), cond=S.core_leaves("x")[0])]),
}
