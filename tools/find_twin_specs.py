#!/usr/bin/env python3
"""Usage: find_twin_specs.py <prop> <twin> [limit]  - which of the check's own shapes catch a given twin."""
import sys, json, importlib
sys.path.insert(0, '/verif')
prop, twin = sys.argv[1], sys.argv[2]
limit = int(sys.argv[3]) if len(sys.argv) > 3 else 150
mod = importlib.import_module('props.' + prop.lower())
from symex.case import explore_case
mod.TWINS[twin]["apply"]()
specs = mod.shapes("quick", 0)
killed = 0
for sp in specs[:limit]:
    r = explore_case(mod.make_case(sp), [], fidelity="none", stop_at_first=True, profile=False, max_paths=300)
    if r["cexs"]:
        killed += 1
        if killed <= 5:
            print(json.dumps(sp))
print(twin, "killed on", killed, "of", min(limit, len(specs)))
