"""Two interpretations of the reference oracles.

``Z3Alg`` builds z3 terms from proxy-valued data (the obligation the solver discharges);
``PyAlg`` evaluates the same reference on plain Python data with ordinary operators (the independent
brute-force oracle used to confirm counterexamples and stored replays: no z3, no proxies).
"""
from __future__ import annotations

import operator

import z3

from .values import SInt, SBool, SRef, SList, SEnum
from .explorer import HarnessError

OPS = {"eq": operator.eq, "ne": operator.ne, "lt": operator.lt, "le": operator.le,
       "gt": operator.gt, "ge": operator.ge}
MIRROR = {"eq": "eq", "ne": "ne", "lt": "gt", "le": "ge", "gt": "lt", "ge": "le"}
NEG = {"eq": "ne", "ne": "eq", "lt": "ge", "le": "gt", "gt": "le", "ge": "lt"}


class Z3Alg:
    symbolic = True

    def num(self, v):
        if isinstance(v, SInt):
            return v.z
        if isinstance(v, bool):
            raise HarnessError("bool used as number in oracle")
        if isinstance(v, int):
            return z3.IntVal(v)
        if z3.is_expr(v):
            return v
        raise HarnessError("not a number: %r" % (v,))

    def truth(self, v):
        """Python truthiness of a value."""
        if isinstance(v, SBool):
            return v.z
        if isinstance(v, bool):
            return z3.BoolVal(v)
        if isinstance(v, SInt):
            return v.z != 0
        if isinstance(v, int):
            return z3.BoolVal(v != 0)
        if isinstance(v, SEnum):
            return z3.Or(*[v._z == j for j, a in enumerate(v._alts) if a]) if any(v._alts) else z3.BoolVal(False)
        if z3.is_expr(v):
            return v if z3.is_bool(v) else v != 0
        return z3.BoolVal(bool(v))

    def cmp(self, op, a, b):
        return OPS[op](self.num(a), self.num(b))

    def same(self, a, b, pool=None):
        """Identity/equality of two object references (SRef or pool objects)."""
        ia, ib = self.index(a, pool), self.index(b, pool)
        return ia == ib

    def index(self, r, pool=None):
        if isinstance(r, SRef):
            if pool is None or (len(pool) and pool[0] is r._pool[0]):
                return r._z
            for k, o in enumerate(pool):  # pool is a union of pools: translate the local index
                if o is r._pool[0]:
                    return r._z + k
            raise HarnessError("SRef pool is not part of the given object list")
        if pool is None:
            raise HarnessError("index of a concrete object needs its pool")
        for j, o in enumerate(pool):
            if o is r:
                return z3.IntVal(j)
        return z3.IntVal(-1)

    def members(self, coll):
        """[(element, presence-term)] of a collection value."""
        if isinstance(coll, SList):
            return list(zip(coll.candidates, coll.present))
        return [(c, z3.BoolVal(True)) for c in coll]

    def and_(self, *ts):
        ts = [self._b(t) for t in ts]
        return z3.And(*ts) if ts else z3.BoolVal(True)

    def or_(self, *ts):
        ts = [self._b(t) for t in ts]
        return z3.Or(*ts) if ts else z3.BoolVal(False)

    def not_(self, t):
        return z3.Not(self._b(t))

    def iff(self, a, b):
        return self._b(a) == self._b(b)

    def implies(self, a, b):
        return z3.Implies(self._b(a), self._b(b))

    def ite(self, c, a, b):
        return z3.If(self._b(c), a, b)

    def const(self, v: bool):
        return z3.BoolVal(bool(v))

    def count(self, ts):
        return z3.Sum(*[z3.If(self._b(t), 1, 0) for t in ts]) if ts else z3.IntVal(0)

    def int_eq(self, a, b):
        return self.num(a) == self.num(b)

    def int_ge(self, a, b):
        return self.num(a) >= self.num(b)

    def _b(self, t):
        if isinstance(t, bool):
            return z3.BoolVal(t)
        return t

    def is_true(self, t):
        raise HarnessError("is_true on symbolic algebra")


class PyAlg:
    symbolic = False

    def num(self, v):
        return v

    def truth(self, v):
        return bool(v)

    def cmp(self, op, a, b):
        return bool(OPS[op](a, b))

    def same(self, a, b, pool=None):
        return a is b

    def index(self, r, pool=None):
        for j, o in enumerate(pool):
            if o is r:
                return j
        return -1

    def members(self, coll):
        return [(c, True) for c in coll]

    def and_(self, *ts):
        return all(ts)

    def or_(self, *ts):
        return any(ts)

    def not_(self, t):
        return not t

    def iff(self, a, b):
        return bool(a) == bool(b)

    def implies(self, a, b):
        return (not a) or bool(b)

    def ite(self, c, a, b):
        return a if c else b

    def const(self, v):
        return bool(v)

    def count(self, ts):
        return sum(1 for t in ts if t)

    def int_eq(self, a, b):
        return a == b

    def int_ge(self, a, b):
        return a >= b


Z3 = Z3Alg()
PY = PyAlg()
