"""C05 - result caching is transparent."""
from __future__ import annotations

import json
import random

from symex.case import Case
from symex import eqlshapes as S
from symex import querycase as Q
from props.c02 import xy_leaves, single_leaves, BASE2

ASSUMPTIONS = [
    "per path: enable_caching(), fresh query, two evaluations; disable_caching(), fresh query, two evaluations - on the same "
    "symbolic data; each of the four row sets is compared with the reference (so they are equal to each other)",
    "IndexedCache.retrieve is wrapped at run time only to count cache hits (non-vacuity)",
]
BOUNDS = {"quick": dict(domains="2x2, 3 (single), 2x2x2", leaves="L<=2 plus and(or,or) over different variables", unnest="2 parents x 2 candidate elements, 7 conditions"),
          "thorough": dict(domains="3x2, 2x2x2", leaves="L<=3 sampled + C10/C12/C15 families with cache on/off")}
LIMITS = {"quick": dict(max_paths=8000, max_wall=90), "thorough": dict(max_paths=60000, max_wall=400)}
FIDELITY_EVERY = {"quick": 4, "thorough": 2}
WALL_BUDGET = {"quick": 480, "thorough": 3300}

HITS = {"n": 0}
_wrapped = False


def _wrap_retrieve():
    global _wrapped
    if _wrapped:
        return
    from entity_query_language import cache_data as cd
    orig = cd.IndexedCache.retrieve

    def retrieve(self, assignment=None, cache=None, key_idx=0, result=None, from_index=True):
        top = cache is None and from_index
        for item in orig(self, assignment, cache, key_idx, result, from_index):
            if top:
                HITS["n"] += 1
            yield item
    cd.IndexedCache.retrieve = retrieve
    _wrapped = True


class C05(Case):
    prop = "C05"

    def run(self, mk):
        from entity_query_language.cache_data import enable_caching, disable_caching
        _wrap_retrieve()
        sp = self.spec
        pools = Q.make_pools(mk, sp)
        data = dict(pools=pools, rows=[], hits=0)
        views = []
        h0 = HITS["n"]
        try:
            for mode in ("on", "off"):
                (enable_caching if mode == "on" else disable_caching)()
                q, sel, V = Q.build_query(sp, pools)
                for rep in range(2):
                    rows = Q.rows_of(list(q.evaluate()), sel, sp, pools)
                    data["rows"].append(("%s#%d" % (mode, rep), rows))
                    views.append(Q.view(rows, sp))
        except Exception as e:
            enable_caching()
            return data, ["exc", type(e).__name__, str(e)[:200]]
        enable_caching()
        data["hits"] = HITS["n"] - h0
        return data, views

    def metrics(self, data, outcome):
        return dict(cache_hits=data.get("hits", 0), paths_with_cache_hit=1 if data.get("hits", 0) else 0)

    def obligations(self, alg, data, outcome):
        if outcome and outcome[0] == "exc":
            return [("no_exception:%s" % outcome[1], alg.const(False))]
        sp = self.spec
        pools = data["pools"]
        allobjs = [o for p in pools.values() for o in p]
        cond = sp.get("cond")

        def sat(sigma):
            return Q.holds(alg, cond, Q.env_of(sigma, sp, pools), allobjs) if cond else alg.const(True)
        obs = []
        for tag, rows in data["rows"]:
            obs += Q.row_obligations(alg, rows, sp, pools, sat, prefix=tag + ":")
        return obs


class C05Rule(Case):
    """Rule trees (the C12 family): caching enabled x2 evaluations and caching disabled x2 evaluations on the same data."""
    prop = "C05"

    def run(self, mk):
        from entity_query_language.cache_data import enable_caching, disable_caching
        from props import c12
        _wrap_retrieve()
        inner = c12.C12(dict(self.spec["rule"], twice=True))
        self._inner = inner
        data = inner.prepare(mk)
        out = {}
        h0 = HITS["n"]
        try:
            for mode in ("on", "off"):
                (enable_caching if mode == "on" else disable_caching)()
                out[mode] = inner.build_and_evaluate(data["items"], 2)
        except Exception as e:
            enable_caching()
            return data, ["exc", type(e).__name__, str(e)[:200]]
        enable_caching()
        data["hits"] = HITS["n"] - h0
        return data, out

    def metrics(self, data, outcome):
        return dict(cache_hits=data.get("hits", 0), paths_with_cache_hit=1 if data.get("hits", 0) else 0)

    def obligations(self, alg, data, outcome):
        if isinstance(outcome, list) and outcome and outcome[0] == "exc":
            return [("no_exception:%s:%s" % (outcome[1], outcome[2][:80]), alg.const(False))]
        obs = []
        for mode in ("on", "off"):
            for lbl, t in self._inner.obligations(alg, data, outcome[mode]):
                obs.append(("cache_%s:%s" % (mode, lbl), t))
        return obs


class C05Flatten(Case):
    """UNNEST queries (the C16 family): caching enabled, 1 and 2 evaluations; caching disabled, 1 and 2 evaluations."""
    prop = "C05"

    def run(self, mk):
        from entity_query_language.cache_data import enable_caching, disable_caching
        from props import c16
        _wrap_retrieve()
        inner = c16.C16(self.spec["flatten"])
        self._inner = inner
        data = inner.prepare(mk)
        out, datas = {}, {}
        h0 = HITS["n"]
        try:
            for mode in ("on", "off"):
                (enable_caching if mode == "on" else disable_caching)()
                for times in (1, 2):
                    datas["%s#%d" % (mode, times)], out["%s#%d" % (mode, times)] = inner.evaluate(data, times)
        finally:
            enable_caching()
        data = dict(data, datas=datas, hits=HITS["n"] - h0)
        return data, out

    def metrics(self, data, outcome):
        return dict(cache_hits=data.get("hits", 0), paths_with_cache_hit=1 if data.get("hits", 0) else 0)

    def obligations(self, alg, data, outcome):
        obs = []
        for tag, view in outcome.items():
            for lbl, t in self._inner.obligations(alg, data["datas"][tag], view):
                obs.append(("cache_%s:%s" % (tag, lbl), t))
        return obs


class C05Sub(Case):
    """Queries composed of nested sub-queries (the C15 family, correlated ones included): caching enabled x2 evaluations and
    caching disabled x2 evaluations of the composed query on the same data, each compared with the inlined reference."""
    prop = "C05"

    def run(self, mk):
        from entity_query_language.cache_data import enable_caching, disable_caching
        from props import c15
        from symex.eqlshapes import an, entity, set_of, symbolic_mode
        _wrap_retrieve()
        sp = self.spec["sub"]
        flat = c15.flatten_tree(sp["tree"])
        pools = Q.make_pools(mk, dict(sp, cond=flat))
        data = dict(pools=pools, flat=flat, rows=[])
        views = []
        h0 = HITS["n"]
        form = "entity" if len(sp["select"]) == 1 else "set_of"
        try:
            for mode in ("on", "off"):
                (enable_caching if mode == "on" else disable_caching)()
                with symbolic_mode():
                    V = Q.declare_vars(sp, pools)
                    sel = [S.build_operand(o, V) for o in sp["select"]]
                    conds = [c15.build_tree(sp["tree"], V)]
                    q = an(entity(sel[0], *conds)) if len(sel) == 1 else an(set_of(sel, *conds))
                for rep in range(2):
                    rows = Q.rows_of(list(q.evaluate()), sel, dict(sp, form=form), pools)
                    data["rows"].append(("%s#%d" % (mode, rep), rows))
                    views.append(Q.view(rows, sp))
        except Exception as e:
            enable_caching()
            return data, ["exc", type(e).__name__, str(e)[:200]]
        enable_caching()
        data["hits"] = HITS["n"] - h0
        return data, views

    def metrics(self, data, outcome):
        return dict(cache_hits=data.get("hits", 0), paths_with_cache_hit=1 if data.get("hits", 0) else 0)

    def obligations(self, alg, data, outcome):
        if outcome and outcome[0] == "exc":
            return [("no_exception:%s" % outcome[1], alg.const(False))]
        sp = self.spec["sub"]
        pools = data["pools"]
        allobjs = [o for p in pools.values() for o in p]

        def sat(sigma):
            return Q.holds(alg, data["flat"], Q.env_of(sigma, sp, pools), allobjs)
        obs = []
        for tag, rows in data["rows"]:
            obs += Q.row_obligations(alg, rows, sp, pools, sat, demand_no_dup=False, prefix=tag + ":")
        return obs


def make_case(spec):
    if "sub" in spec:
        return C05Sub(spec)
    if "flatten" in spec:
        return C05Flatten(spec)
    if "rule" in spec:
        return C05Rule(spec)
    return C05(spec)


def shapes(tier, seed):
    rnd = random.Random(seed)
    out = []
    J, SX, SY = xy_leaves(), single_leaves("x"), single_leaves("y")
    FULL = [["v", "x"], ["v", "y"]]

    def add(cond, select=FULL, base=BASE2, **kw):
        d = dict(base)
        d.update(cond=cond, select=select)
        d.update(kw)
        out.append(d)
    for l in J:
        add(l)
        add(["not", l])
    leaves = J[:5] + SX[:2] + SY[:2]
    for l1 in leaves:
        for l2 in leaves:
            if l1 is l2:
                continue
            for op in ("and", "or"):
                if tier == "thorough" or rnd.random() < 0.6:
                    add([op, l1, l2])
                if rnd.random() < 0.25:
                    add(["not", [op, l1, l2]])
                if rnd.random() < 0.25:
                    add([op, l1, l2], select=rnd.choice([[["v", "x"]], [["v", "y"]], [["v", "y"], ["v", "x"]]]))
    # conjunction of disjunctions over different variables: wildcard cache levels
    for (a1, b1) in [(SX[0], SY[0]), (SX[1], SY[1]), (SX[0], J[3])]:
        for (a2, b2) in [(SX[1], SY[0]), (SY[1], SX[0]), (J[0], SY[1])]:
            add(["and", ["or", a1, b1], ["or", a2, b2]])
            add(["and", ["or", b1, a1], ["or", a2, b2]], select=[["v", "y"], ["v", "x"]])
            add(["or", ["and", a1, b1], ["and", a2, b2]])
    # single variable
    ONE = dict(pools={"X": 3}, vars={"x": "X"})
    core = S.core_leaves("x")
    for l1 in core:
        for l2 in core:
            for op in ("and", "or"):
                if tier == "thorough" or rnd.random() < 0.4:
                    add([op, l1, l2], select=[["v", "x"]], base=ONE)
    # three-way chains over the same variable (nested else-if / and), and their negations
    for tri in [(core[0], core[1], core[2]), (core[3], core[5], core[6]), (core[7], core[0], core[4])]:
        for op in ("and", "or"):
            add([op] + list(tri), select=[["v", "x"]], base=ONE)
            add(["not", [op] + list(tri)], select=[["v", "x"]], base=ONE)
    for tri in [(SX[0], SX[1], J[3]), (J[0], J[3], J[4])]:
        for op in ("and", "or"):
            add([op] + list(tri))
            add(["not", [op] + list(tri)])
    # three variables
    B3 = dict(pools={"X": 2, "Y": 2, "W": 2}, classes={"W": "Other"}, refs={"X": "Y"}, vars={"x": "X", "y": "Y", "w": "W"})
    for c in [["and", ["cmp", "eq", ["ra", "x"], ["v", "y"]], ["cmp", "lt", ["a", "y", "a"], ["a", "w", "a"]]],
              ["and", ["or", SX[0], SY[0]], ["or", ["cmp", "gt", ["a", "w", "a"], ["lit", 0]], SX[1]]],
              ["and", ["cmp", "eq", ["a", "x", "a"], ["a", "y", "a"]],
               ["or", ["cmp", "eq", ["a", "w", "a"], ["a", "x", "a"]], ["cmp", "gt", ["a", "w", "b"], ["a", "y", "b"]]]]]:
        add(c, select=[["v", "x"], ["v", "y"], ["v", "w"]], base=B3)
        add(c, select=[["v", "w"], ["v", "x"]], base=B3)
    # three variables, a three-way disjunction over DIFFERENT variable sets inside a join (its inner else-if is replayed from
    # the right-side cache for a second binding of the first variable)
    E = lambda a, fa, b, fb: ["cmp", "eq", ["a", a, fa], ["a", b, fb]]
    G1 = lambda a, f: ["cmp", "gt", ["a", a, f], ["lit", 1]]
    for c in [["and", E("x", "a", "y", "a"), ["or", E("x", "b", "w", "b"), E("y", "b", "w", "c"), G1("x", "c")]],
              ["and", E("x", "a", "y", "a"), ["or", E("y", "b", "w", "c"), G1("x", "c"), E("x", "b", "w", "b")]],
              ["and", G1("w", "a"), ["or", E("x", "b", "w", "b"), E("y", "b", "w", "c"), G1("y", "c")]],
              ["or", E("x", "b", "w", "b"), E("y", "b", "w", "c"), G1("x", "c")],
              ["and", E("x", "a", "y", "a"), ["not", ["and", ["cmp", "ne", ["a", "x", "b"], ["a", "w", "b"]],
                                                       ["cmp", "ne", ["a", "y", "b"], ["a", "w", "c"]], ["cmp", "le", ["a", "x", "c"], ["lit", 1]]]]]]:
        add(c, select=[["v", "x"], ["v", "y"], ["v", "w"]], base=B3)
    # nested sub-queries, correlated with the enclosing query (their condition reads a variable they do not select), as right /
    # left operand of & and |
    TWOs = dict(pools={"X": 2, "Y": 2}, refs={"X": "Y"}, vars={"x": "X", "y": "Y"})
    sx = lambda c: ["sub", "entity", ["x"], c]
    sy = lambda c: ["sub", "entity", ["y"], c]
    for sel in ([["v", "x"], ["v", "y"]], [["v", "y"]]):
        for (a_, b_) in [(J[3], SY[0]), (J[5], SX[1]), (J[0], SY[1]), (["and", J[3], SX[0]], SY[0])]:
            out.append(dict(sub=dict(TWOs, select=sel, tree=["&", ["plain", b_], sx(a_)])))
            out.append(dict(sub=dict(TWOs, select=sel, tree=["|", ["plain", b_], sx(a_)])))
            out.append(dict(sub=dict(TWOs, select=sel, tree=["&", sy(a_), sx(J[4])])))
            out.append(dict(sub=dict(TWOs, select=sel, tree=["|", ["&", ["plain", b_], sx(a_)], ["plain", J[4]]])))
    # rule trees (every tree of the C12 grammar with <= 4 branches; branch-variable and pair-matching variants for <= 3)
    from props import c12
    for B in range(1, (4 if tier == "quick" else 5) + 1):
        for t in c12.all_trees(B):
            out.append(dict(rule=dict(tree=t)))
            if B <= 3 and len(t) == 1:
                out.append(dict(rule=dict(tree=t, join=True)))
    # UNNEST queries: the flattened element through an attribute and directly as a comparison operand
    for c in (["e>", 1], ["E>", 1], ["E>p"], ["and", ["p>", 0], ["E>", 1]], ["or", ["E>", 1], ["p>", 1]], ["not", ["E>", 1]],
              ["and", ["E>", 0], ["not", ["e>", 2]]]):
        for sel, form in ((["p", "e"], "set_of"), (["e"], "entity")):
            out.append(dict(flatten=dict(parents=2, cands=3 if tier == "thorough" else 2, cond=c, select=sel, form=form)))
    if tier == "thorough":
        skels = list(S.tree_skeletons(3))
        for _ in range(500):
            c = S.fill(rnd.choice(skels), [rnd.choice(leaves) for _ in range(3)])
            add(rnd.choice(S.negation_variants(c)))
        skels4 = list(S.tree_skeletons(4))
        for _ in range(150):
            c = S.fill(rnd.choice(skels4), [rnd.choice(SX[:2] + SY[:2] + J[3:5]) for _ in range(4)])
            add(c)
    seen, uniq = set(), []
    for s in out:
        k = json.dumps(s, sort_keys=True)
        if k not in seen:
            seen.add(k)
            uniq.append(s)
    return uniq


# ---------------------------------------------------------------------------------------------- twins
def _twin_seenset_any_instead_of_all():
    from entity_query_language import cache_data as cd

    def check(self, assignment):
        if self.all_seen:
            return True
        if not assignment:
            self.all_seen = True
            self.seen.append(assignment)
            return False
        for constraint in self.seen:
            if any(assignment[k] == v if k in assignment else False for k, v in constraint.items()):
                return True
        return False
    cd.SeenSet.check = check


def _twin_cached_truth_flag_not_restored():
    from entity_query_language import symbolic as sym

    def y(self, variables_sources, cache=None):
        cache = self._cache_ if cache is None else cache
        for output, is_false in cache.retrieve(variables_sources):
            if is_false and self._is_duplicate_output_(output):
                continue
            yield output
    sym.BinaryOperator.yield_final_output_from_cache = y


def _twin_cache_stores_wrong_truth():
    from entity_query_language import symbolic as sym
    from entity_query_language.cache_data import is_caching_enabled

    def update_cache(self, values, cache=None):
        if not is_caching_enabled():
            return
        cache = self._cache_ if cache is None else cache
        cache.insert({k: v for k, v in values.items() if k in cache.keys}, output=False)
    sym.BinaryOperator.update_cache = update_cache


def _twin_cache_not_reset():
    """Coverage recorded for one binding is taken to cover every binding of the first key."""
    from entity_query_language import cache_data as cd
    orig = cd.IndexedCache.check

    def check(self, assignment):
        a = {k: v for k, v in assignment.items() if k in self.keys}
        if a and len(self.keys) > 1:
            k0 = self.keys[0]
            a = {k0: a[k0]} if k0 in a else a
            for c in self.seen_set.seen:
                if k0 in c and c[k0] == a.get(k0):
                    return True
            return False
        return orig(self, assignment)
    cd.IndexedCache.check = check


_SX, _SY, _J = single_leaves("x"), single_leaves("y"), xy_leaves()
_FULL = [["v", "x"], ["v", "y"]]
def _andor_family():
    out = []
    for (a1, b1) in [(_SX[0], _SY[0]), (_SX[1], _SY[1]), (_SX[0], _J[3])]:
        for (a2, b2) in [(_SX[1], _SY[0]), (_SY[1], _SX[0]), (_J[0], _SY[1])]:
            out.append(dict(BASE2, cond=["and", ["or", a1, b1], ["or", a2, b2]], select=_FULL))
    out.append(dict(BASE2, cond=["and", _J[0], _SX[0]], select=_FULL))
    out.append(dict(BASE2, cond=["not", ["and", _J[0], _SX[0]]], select=_FULL))
    out.append(dict(BASE2, cond=["or", ["not", _J[3]], _SY[0]], select=_FULL))
    out.append(dict(BASE2, cond=["and", _J[0], _J[3]], select=_FULL))
    out.append(dict(BASE2, cond=["and", _SX[0], _J[3]], select=_FULL))
    return out


TWINS = {
    "seenset_any_instead_of_all": dict(apply=_twin_seenset_any_instead_of_all, specs=lambda t: _andor_family()),
    "cached_truth_flag_not_restored": dict(apply=_twin_cached_truth_flag_not_restored, specs=lambda t: _andor_family()),
    "cache_stores_wrong_truth_flag": dict(apply=_twin_cache_stores_wrong_truth, specs=lambda t: _andor_family()),
    "coverage_check_ignores_later_keys": dict(apply=_twin_cache_not_reset, specs=lambda t: _andor_family()),
}
