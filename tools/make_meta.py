#!/usr/bin/env python3
"""Write seeded/<id>/meta.json from eval.json + notes.md (what it breaks, what it needs, what was run, who catches it)."""
import glob, json, os, re, sys
HERE = os.path.dirname(os.path.dirname(os.path.abspath(__file__)))
for d in sorted(glob.glob(os.path.join(HERE, "seeded", "*"))):
    ev = os.path.join(d, "eval.json")
    if not os.path.exists(ev):
        continue
    e = json.load(open(ev))
    notes = open(os.path.join(d, "notes.md")).read() if os.path.exists(os.path.join(d, "notes.md")) else ""
    need = ""
    m = re.search(r"(?is)(what it (?:takes|needs)[^\n]*\n.*?)(?:\n\s*\n\*\*|\n#|\Z)", notes)
    if m:
        need = " ".join(m.group(1).split())[:900]
    meta = dict(
        id=os.path.basename(d), breaks_property=e.get("target"),
        origin="written by an independent sub-agent that was given only the property text and a scratch worktree",
        needs_to_manifest=need or "see notes.md",
        confirmed=dict(
            how="tools/eval_seed.py: scratch worktree of /repo HEAD + patch.diff; existing suite; demo.py with and without the change; "
                "then the quick checks run against the patched scratch copy (EQL_SRC) with output redirected (VERIF_OUT)",
            patch_applies=e.get("patch_applies") or e.get("patch_applies_3way"), existing_suite=e.get("suite"),
            suite_still_passes=e.get("suite_ok"), demo_fails_with_change=e.get("demo_with_change", {}).get("rc") not in (0, None),
            demo_passes_without_change=e.get("demo_without_change", {}).get("rc") == 0),
        checks_run=sorted(e.get("checks", {}).keys()),
        caught_by=e.get("caught_by", []), harness_errors=e.get("harness_errors", []),
        first_counterexample={c: v.get("first") for c, v in e.get("checks", {}).items() if v.get("rc") == 1},
        history=e.get("history", []),
    )
    json.dump(meta, open(os.path.join(d, "meta.json"), "w"), indent=1)
    print(meta["id"], "->", meta["caught_by"], "suite_ok", meta["confirmed"]["suite_still_passes"], "demo", meta["confirmed"]["demo_fails_with_change"], meta["confirmed"]["demo_passes_without_change"])
