"""Dynamic symbolic execution explorer: re-execution DFS over decision prefixes, z3 decides every branch.

A *case* (see symex/case.py) is executed once per path.  While it runs, the real
``entity_query_language`` engine manipulates proxy values (symex/values.py); every data-dependent
decision lands in ``Ctx.decide`` with a z3 Bool.  The explorer
  * answers from the recorded prefix while replaying,
  * otherwise evaluates the formula in the current model (one side is feasible for free) and asks
    z3 whether the other side is feasible too (one ``check``), recording a backtrack point,
  * at the end of the path discharges the case's obligations ``PC => phi`` (one ``check`` of
    ``PC /\\ not phi``): ``unsat`` = holds for *every* input following this path, ``sat`` = model,
    ``unknown`` = inconclusive (never a pass),
  * after the last path discharges the coverage obligation: the explored path conditions are
    jointly exhaustive for the declared input space.
"""
from __future__ import annotations

import time
from typing import Any, Callable, Dict, List, Optional, Tuple

import z3


class HarnessError(Exception):
    """Something is wrong with the machinery (never reported as a violation, never as a pass)."""


class PathPruned(BaseException):
    """The current path violates a harness guard (``ctx.prune()``); it is vacuous, not a result."""


class PathBudget(BaseException):
    """Per-shape path or wall budget exhausted."""


class Ctx:
    """Per-shape exploration context; ``begin`` resets the per-path part."""

    def __init__(self, timeout_ms: int = 20000):
        self.timeout_ms = timeout_ms
        # cumulative statistics
        self.n_queries = 0
        self.solver_time = 0.0
        self.paths = 0
        self.pruned_paths = 0
        self.decisions = 0
        self.obligations = 0
        self.discharged = 0
        self.unknowns = 0
        # declared inputs (name -> z3 const) and global constraints on them; re-declared every path
        self.inputs: Dict[str, z3.ExprRef] = {}
        self.constraints: List[z3.BoolRef] = []
        self.prefix: List[Tuple[bool, bool, str]] = []

    # ---------------------------------------------------------------- per path
    def begin(self, prefix):
        self.solver = z3.Solver()
        self.solver.set("timeout", self.timeout_ms)
        self.prefix = list(prefix)
        self.pos = 0
        self.memo: Dict[int, bool] = {}
        self.model: Optional[z3.ModelRef] = None
        self.trail: List[Tuple[z3.BoolRef, bool]] = []
        self.inputs = {}
        self.constraints = []
        self.notes: List[str] = []

    def _check(self, *extra) -> z3.CheckSatResult:
        t = time.perf_counter()
        if extra:
            self.solver.push()
            self.solver.add(*extra)
            r = self.solver.check()
            if r == z3.sat:
                self._last_model = self.solver.model()
            self.solver.pop()
        else:
            r = self.solver.check()
            if r == z3.sat:
                self._last_model = self.solver.model()
        self.solver_time += time.perf_counter() - t
        self.n_queries += 1
        return r

    def _get_model(self) -> z3.ModelRef:
        if self.model is None:
            r = self._check()
            if r != z3.sat:
                raise HarnessError(f"path condition not satisfiable ({r}) - explorer bug or solver unknown")
            self.model = self._last_model
        return self.model

    # ---------------------------------------------------------------- inputs
    def declare(self, name: str, z: z3.ExprRef, *constraints: z3.BoolRef) -> z3.ExprRef:
        if name in self.inputs:
            raise HarnessError(f"input {name} declared twice")
        self.inputs[name] = z
        for c in constraints:
            self.constrain(c)
        return z

    def constrain(self, c: z3.BoolRef):
        """A global assumption on the inputs (sort/range constraint).  Part of the stated bounds."""
        self.constraints.append(c)
        self.solver.add(c)
        if self.model is not None and not z3.is_true(self.model.eval(c, model_completion=True)):
            self.model = None

    # ---------------------------------------------------------------- decisions
    def decide(self, expr) -> bool:
        if isinstance(expr, bool):
            return expr
        if z3.is_true(expr):
            return True
        if z3.is_false(expr):
            return False
        key = expr.get_id()
        hit = self.memo.get(key)
        if hit is not None:
            return hit
        if self.pos < len(self.prefix):
            val, alt, sx = self.prefix[self.pos]
            if sx != _sig(expr):
                raise HarnessError("nondeterministic re-execution: decision %d asked %s, recorded %s"
                                   % (self.pos, _sig(expr), sx))
        else:
            m = self._get_model()
            val = z3.is_true(m.eval(expr, model_completion=True))
            other = z3.Not(expr) if val else expr
            r = self._check(other)
            if r == z3.unknown:
                self.unknowns += 1
                raise HarnessError("solver returned unknown on a branch feasibility query")
            alt = r == z3.sat
            self.prefix.append((val, alt, _sig(expr)))
        self.pos += 1
        self.decisions += 1
        lit = expr if val else z3.Not(expr)
        self.solver.add(lit)
        if self.model is not None and not z3.is_true(self.model.eval(lit, model_completion=True)):
            self.model = None
        self.memo[key] = val
        self.trail.append((expr, val))
        return val

    def choose(self, name: str, n: int) -> int:
        """A symbolic integer in [0, n) concretised by an n-way fork.

        The constant is fresh (declared here, constrained only to its range), so under any path condition each of the n
        values is feasible: no feasibility query is needed, the fork is recorded as one n-ary decision."""
        z = z3.Int(name)
        self.declare(name, z, z >= 0, z < n)
        sig = "choose:%s:%d" % (name, n)
        if self.pos < len(self.prefix):
            val, alt, sx = self.prefix[self.pos]
            if sx != sig:
                raise HarnessError("nondeterministic re-execution: decision %d asked %s, recorded %s" % (self.pos, sig, sx))
        else:
            val = 0
            self.prefix.append((val, n > 1, sig))
        self.pos += 1
        self.decisions += 1
        lit = z == val
        self.solver.add(lit)
        self.model = None
        self.trail.append((lit, True))
        return val

    def prune(self):
        raise PathPruned()

    def path_condition(self) -> List[z3.BoolRef]:
        return [e if v else z3.Not(e) for e, v in self.trail]

    # ---------------------------------------------------------------- obligations
    def prove(self, prop) -> Optional[z3.ModelRef]:
        """Return None when ``PC => prop`` is valid, else a model of ``PC /\\ not prop``."""
        self.obligations += 1
        if isinstance(prop, bool):
            if prop:
                self.discharged += 1
                return None
            return self._get_model()
        r = self._check(z3.Not(prop))
        if r == z3.unsat:
            self.discharged += 1
            return None
        if r == z3.sat:
            return self._last_model
        self.unknowns += 1
        raise HarnessError("solver returned unknown on an obligation")

    def model_values(self, model: Optional[z3.ModelRef] = None) -> Dict[str, Any]:
        m = model if model is not None else self._get_model()
        out = {}
        for name, z in self.inputs.items():
            v = m.eval(z, model_completion=True)
            if z3.is_bool(z):
                out[name] = bool(z3.is_true(v))
            else:
                out[name] = v.as_long()
        return out


def _sig(expr) -> str:
    # cheap structural signature of a decision formula for the determinism guard
    return "%d:%s" % (expr.decl().kind(), expr.sexpr()[:120])


class Exploration:
    """Outcome of exploring one case."""

    def __init__(self):
        self.paths = 0
        self.pruned = 0
        self.truncated = False
        self.pcs: List[Tuple[List[z3.BoolRef], List[z3.BoolRef]]] = []
        self.coverage_checked = False
        self.stats: Dict[str, Any] = {}


def explore(path_fn: Callable[[Ctx], None], max_paths: int = 20000, max_wall: float = 120.0,
            coverage_cap: int = 4000, timeout_ms: int = 20000) -> Tuple[Ctx, Exploration]:
    """Run ``path_fn(ctx)`` once per feasible path.  ``path_fn`` records its own results."""
    ctx = Ctx(timeout_ms=timeout_ms)
    ex = Exploration()
    prefix: List[Tuple[bool, bool, str]] = []
    t0 = time.perf_counter()
    keep_pcs = True
    while True:
        ctx.begin(prefix)
        try:
            path_fn(ctx)
        except PathPruned:
            ctx.pruned_paths += 1
        ctx.paths += 1
        if keep_pcs:
            ex.pcs.append((ctx.path_condition(), list(ctx.constraints)))
            if len(ex.pcs) > coverage_cap:
                keep_pcs = False
                ex.pcs = []
        taken = ctx.prefix
        i = len(taken) - 1
        while i >= 0 and not taken[i][1]:
            i -= 1
        if i < 0:
            break
        if ctx.paths >= max_paths or time.perf_counter() - t0 > max_wall:
            ex.truncated = True
            break
        if taken[i][2].startswith("choose:"):
            n = int(taken[i][2].rsplit(":", 1)[1])
            nv = taken[i][0] + 1
            prefix = taken[:i] + [(nv, nv < n - 1, taken[i][2])]
        else:
            prefix = taken[:i] + [(not taken[i][0], False, taken[i][2])]
    ex.paths = ctx.paths
    ex.pruned = ctx.pruned_paths
    # coverage obligation: the explored path conditions are jointly exhaustive
    if not ex.truncated and keep_pcs and ex.pcs:
        s = z3.Solver()
        s.set("timeout", max(timeout_ms, 60000))
        # constraints can differ between paths only through lazily declared inputs (choose);
        # a path's own constraints are part of its condition for this purpose
        disj = []
        for pc, cons in ex.pcs:
            disj.append(z3.And(*pc) if pc else z3.BoolVal(True))
        # the declared input space: constraints common to every path (declared before any decision)
        # are the assumptions; lazily declared range constraints restrict fresh variables only and
        # are satisfiable for any value of the others, so they are existentially harmless:
        # we conjoin all constraints seen anywhere.
        seen = {}
        for _, cons in ex.pcs:
            for c in cons:
                seen[c.get_id()] = c
        s.add(*seen.values())
        s.add(z3.Not(z3.Or(*disj)))
        t = time.perf_counter()
        r = s.check()
        ctx.solver_time += time.perf_counter() - t
        ctx.n_queries += 1
        ctx.obligations += 1
        if r == z3.unsat:
            ctx.discharged += 1
            ex.coverage_checked = True
        elif r == z3.sat:
            raise HarnessError("coverage obligation failed: explored paths do not cover the input space: %s"
                               % s.model())
        else:
            ctx.unknowns += 1
            raise HarnessError("coverage obligation: solver unknown")
    ex.pcs = []
    ex.stats = dict(paths=ctx.paths, pruned=ctx.pruned_paths, decisions=ctx.decisions, queries=ctx.n_queries,
                    solver_s=round(ctx.solver_time, 4), obligations=ctx.obligations, discharged=ctx.discharged,
                    unknowns=ctx.unknowns, wall_s=round(time.perf_counter() - t0, 4),
                    coverage_checked=ex.coverage_checked, truncated=ex.truncated)
    return ctx, ex
