"""C09 - evaluation gives the same answer inside and outside a symbolic block."""
from __future__ import annotations

import json

from symex.case import Case
from symex import eqlshapes as S
from symex.eqlshapes import Item, SubItem, Made, an, the, entity, set_of, let, symbolic_mode
from entity_query_language import rule_mode, infer, MultipleSolutionFound, NoSolutionFound, Add

ASSUMPTIONS = [
    "the query/rule is built in its own proper mode; only evaluate() is called under the ambient mode",
    "late_query / late_rule: evaluate() is called outside every block, the iterator it returns is consumed inside a block",
    "ambient modes: none, `with symbolic_mode():`, `with rule_mode():`, `with rule_mode(query):` and `with query:` of the "
    "evaluated query itself; each evaluation uses a freshly built query",
]
BOUNDS = {"quick": dict(domain_objects=3, quantifiers="an, the, infer, Add-conclusion", predicates="@predicate function, Predicate "
                        "subclass, HasType, comparison, rule-head construction"),
          "thorough": dict(domain_objects=3, extra="L<=2 trees around the predicate leaf")}
LIMITS = {"quick": dict(max_paths=8000, max_wall=90), "thorough": dict(max_paths=60000, max_wall=400)}
WALL_BUDGET = {"quick": 420, "thorough": 3000}

# late_*: the result iterator is obtained OUTSIDE every block and consumed inside one
AMBIENTS = ["none", "query", "rule", "rule_of_query", "with_query", "late_query", "late_rule"]


class _Null:
    def __enter__(self):
        return None

    def __exit__(self, *a):
        return False


def ambient(name, q=None):
    if name in ("none", "late_query", "late_rule"):
        return _Null()
    if name == "query":
        return symbolic_mode()
    if name == "rule_of_query":      # the documented rule-tree block of the very query that is evaluated
        return rule_mode(q)
    if name == "with_query":
        return q
    return rule_mode()


class C09(Case):
    prop = "C09"

    def _items(self, mk):
        sp = self.spec
        need = S.extras_needed(sp["cond"])
        classes = [None, SubItem, None] if sp.get("mixed") else None
        return S.make_objects(mk, Item, "x", sp.get("n", 3), extra=tuple(e for e in ("f", "t", "d", "s", "sl") if e in need),
                              classes=classes)

    def _build(self, items):
        sp = self.spec
        quant = sp["quant"]
        if quant in ("an", "the"):
            with symbolic_mode():
                x = let(Item, domain=items)
                q = (an if quant == "an" else the)(entity(x, S.build(sp["cond"], {"x": x})))
            return q
        if quant in ("an_setof", "the_setof"):
            with symbolic_mode():
                x = let(Item, domain=items)
                self._selx = x
                q = (an if quant == "an_setof" else the)(set_of([x], S.build(sp["cond"], {"x": x})))
            return q
        if quant == "infer":
            with rule_mode():
                x = let(Item, domain=items)
                q = infer(entity(Made(src=x, val=x.a), S.build(sp["cond"], {"x": x})))
            return q
        if quant == "an_rule":  # a rule written with an(...) inside rule_mode, without infer()
            with rule_mode():
                x = let(Item, domain=items)
                q = an(entity(Made(src=x, val=x.a), S.build(sp["cond"], {"x": x})))
            return q
        if quant == "add":
            with symbolic_mode():
                x = let(Item, domain=items)
                q = an(entity(m := let(Made), S.build(sp["cond"], {"x": x})))
            with rule_mode(q):
                Add(m, Made(src=x, val=x.a))
            return q
        raise ValueError(quant)

    def _idx(self, o, items):
        for j, it in enumerate(items):
            if it is o:
                return j
        return -1

    def run(self, mk):
        sp = self.spec
        items = self._items(mk)
        S.SUBQ["pool"] = items
        data = dict(items=items, made=[])
        out = {}
        for amb in AMBIENTS:
            for k in S.CALLS:
                S.CALLS[k] = 0
            try:
                q = self._build(items)
                with ambient(amb, q):
                    if sp["quant"] in ("the", "the_setof"):
                        try:
                            r = q.evaluate()
                            if sp["quant"] == "the_setof":
                                r = r[self._selx]
                            res = ["value", self._idx(r, items)]
                        except MultipleSolutionFound:
                            res = ["multiple"]
                        except NoSolutionFound:
                            res = ["none"]
                    else:
                        if amb.startswith("late_"):
                            it = q.evaluate()
                            with (symbolic_mode() if amb == "late_query" else rule_mode()):
                                rs = list(it)
                        else:
                            rs = list(q.evaluate())
                        if sp["quant"] in ("infer", "add", "an_rule"):
                            data["made"].append((amb, rs))
                            res = ["made", [[type(o).__name__, self._idx(getattr(o, "src", None), items)] for o in rs]]
                        elif sp["quant"] == "an_setof":
                            res = ["rows", [self._idx(o[self._selx], items) for o in rs]]
                        else:
                            res = ["rows", [self._idx(o, items) for o in rs]]
            except Exception as e:
                res = ["exc", type(e).__name__, str(e)[:160]]
            out[amb] = dict(res=res, calls=sum(S.CALLS.values()))
        return data, out

    def obligations(self, alg, data, outcome):
        sp = self.spec
        items = data["items"]
        cond = sp["cond"]
        S.SUBQ["pool"] = items
        sat = [S.holds(alg, cond, {"x": it}) for it in items]
        # the predicate is certainly reached only when it is the first thing evaluated (evaluation is lazy: a conjunct that
        # fails for every object legitimately keeps later predicates from being called at all)
        leaf = cond
        while leaf[0] in ("and", "or", "not", "&", "|", "~"):
            leaf = leaf[1]
        uses_pred = leaf[0] in ("pf", "PC", "m", "big", "pf2", "PC2") and len(items) > 0
        obs = []
        for amb in AMBIENTS:
            o = outcome[amb]
            res = o["res"]
            p = "ambient=%s:" % amb
            if res[0] == "exc":
                obs.append((p + "no_exception:%s:%s" % (res[1], res[2][:60]), alg.const(False)))
                continue
            if res[0] == "rows":
                idx = res[1]
                obs.append((p + "members_in_order", alg.const(all(i >= 0 for i in idx) and all(a < b for a, b in zip(idx, idx[1:])))))
                for i in range(len(items)):
                    obs.append((p + "row_%d" % i, alg.iff(alg.const(i in idx), sat[i])))
            elif res[0] == "made":
                made = dict(data["made"])[amb]
                srcs = [r[1] for r in res[1]]
                obs.append((p + "real_instances_of_the_head_class", alg.const(all(type(m) is Made for m in made))))
                obs.append((p + "one_instance_per_binding", alg.const(len(srcs) == len(set(srcs)) and all(i >= 0 for i in srcs))))
                for i in range(len(items)):
                    obs.append((p + "binding_%d" % i, alg.iff(alg.const(i in srcs), sat[i])))
                for m in made:
                    j = self._idx(getattr(m, "src", None), items)
                    if j >= 0:
                        obs.append((p + "field_from_same_binding_%d" % j, alg.const(getattr(m, "val", None) is items[j].a)
                                    if alg.symbolic else alg.const(getattr(m, "val", None) == items[j].a)))
            else:
                cnt = alg.count(sat)
                if res[0] == "value":
                    obs.append((p + "value_iff_exactly_one", alg.int_eq(cnt, 1)))
                    obs.append((p + "value_satisfies", sat[res[1]] if res[1] >= 0 else alg.const(False)))
                elif res[0] == "multiple":
                    obs.append((p + "multiple_iff_two_or_more", alg.int_ge(cnt, 2)))
                else:
                    obs.append((p + "none_iff_zero", alg.int_eq(cnt, 0)))
            if uses_pred:
                obs.append((p + "user_predicates_were_executed", alg.const(o["calls"] > 0)))
        return obs


class C09Registry(Case):
    """Scenario: a rule whose second variable is declared by keyword constraints WITHOUT a domain (w = RReg(v=x.a): it ranges over
    the registry), evaluated under every ambient mode: one real instance per pair (x, w) with w.v == x.a."""
    prop = "C09"

    def run(self, mk):
        from props.c04 import RItem, RReg
        items = [RItem(a=mk.int("x_%d.a" % i)) for i in range(2)]
        regs = [RReg(v=mk.int("w_%d.v" % j)) for j in range(2)]
        data = dict(items=items, regs=regs)
        out = {}
        for amb in AMBIENTS:
            try:
                with rule_mode():
                    x = let(RItem, domain=items)
                    w = RReg(v=x.a)
                    q = infer(entity(Made(src=x, val=w)))
                with ambient(amb, q):
                    rs = list(q.evaluate())
                out[amb] = ["made", [[type(o) is Made, next((i for i, it in enumerate(items) if it is getattr(o, "src", None)), -1),
                                      next((j for j, r in enumerate(regs) if r is getattr(o, "val", None)), -1)] for o in rs]]
            except Exception as e:
                out[amb] = ["exc", type(e).__name__, str(e)[:160]]
        return data, out

    def obligations(self, alg, data, outcome):
        obs = []
        for amb in AMBIENTS:
            res = outcome[amb]
            p = "ambient=%s:" % amb
            if res[0] == "exc":
                obs.append((p + "no_exception:%s:%s" % (res[1], res[2][:60]), alg.const(False)))
                continue
            rows = res[1]
            obs.append((p + "real_instances_built_from_domain_and_registry_objects", alg.const(all(r[0] and r[1] >= 0 and r[2] >= 0 for r in rows))))
            pairs = [(r[1], r[2]) for r in rows]
            obs.append((p + "one_instance_per_pair", alg.const(len(pairs) == len(set(pairs)))))
            for i, xo in enumerate(data["items"]):
                for j, wo in enumerate(data["regs"]):
                    obs.append((p + "pair_x%d_w%d" % (i, j), alg.iff(alg.const((i, j) in pairs), alg.cmp("eq", wo.v, xo.a))))
        return obs


def make_case(spec):
    if spec.get("scenario") == "registry_keyword_variable":
        return C09Registry(spec)
    return C09(spec)


def shapes(tier, seed):
    out = []
    leaves = [["pf", "x"], ["PC", "x"], ["m", "x"], ["big", "x", 1], ["cmp", "gt", ["a", "x", "a"], ["lit", 1]],
              ["not", ["pf", "x"]], ["not", ["PC", "x"]],
              ["and", ["pf", "x"], ["cmp", "lt", ["a", "x", "b"], ["a", "x", "c"]]],
              ["or", ["PC", "x"], ["pf", "x"]], ["and", ["PC", "x"], ["pf", "x"]]]
    leaves += [["pf2", "x", 1], ["PC2", "x", 0], ["cmp", "le", ["a", "x", "b"], ["a", "x", "c"]]]
    # a predicate whose body opens (and leaves) a symbolic block of its own while the outer query is being evaluated
    leaves += [["pq", "x"], ["and", ["pq", "x"], ["PC", "x"]], ["or", ["pq", "x"], ["PC", "x"]], ["and", ["PC", "x"], ["pq", "x"]]]
    out.append(dict(scenario="registry_keyword_variable"))
    for q in ("an_setof", "the_setof"):
        for c in leaves[:6]:
            out.append(dict(quant=q, cond=c))
    for q in ("an", "the", "infer", "add", "an_rule"):
        for c in leaves:
            out.append(dict(quant=q, cond=c))
        out.append(dict(quant=q, cond=["HT", "x"], mixed=True))
        out.append(dict(quant=q, cond=["and", ["HT", "x"], ["pf", "x"]], mixed=True))
    if tier == "thorough":
        core = S.core_leaves("x")
        for q in ("an", "the", "infer", "add", "an_rule"):
            for p in (["pf", "x"], ["PC", "x"]):
                for l in core:
                    for op in ("and", "or"):
                        out.append(dict(quant=q, cond=[op, p, l]))
                        out.append(dict(quant=q, cond=[op, l, ["not", p]]))
    seen, uniq = set(), []
    for s in out:
        k = json.dumps(s, sort_keys=True)
        if k not in seen:
            seen.add(k)
            uniq.append(s)
    return uniq


def _twin_an_evaluates_in_ambient_mode():
    from entity_query_language import symbolic as sym

    def evaluate(self):
        yield from map(self._process_result_, self._evaluate__())
        self._reset_cache_()
    sym.An.evaluate = evaluate


def _twin_the_evaluates_in_ambient_mode():
    """The defect repaired in The.evaluate, re-introduced."""
    from entity_query_language import symbolic as sym

    def evaluate(self):
        try:
            result = self._evaluate_()
            result = self._process_result_(result)
        finally:
            self._reset_cache_()
        return result
    sym.The.evaluate = evaluate


TWINS = {
    "an_evaluates_in_ambient_mode": dict(apply=_twin_an_evaluates_in_ambient_mode, specs=lambda t: [dict(quant="an", cond=["PC", "x"])]),
    "infer_evaluates_in_ambient_mode": dict(apply=_twin_an_evaluates_in_ambient_mode, specs=lambda t: [dict(quant="infer", cond=["pf", "x"])]),
    "the_evaluates_in_ambient_mode": dict(apply=_twin_the_evaluates_in_ambient_mode, specs=lambda t: [dict(quant="the", cond=["PC", "x"])]),
}
