#!/usr/bin/env python3
"""Rewrite the table of DESIGN.md section 11.6 from seeded/*/meta.json."""
import glob, json, os, re
HERE = os.path.dirname(os.path.dirname(os.path.abspath(__file__)))
rows = []
missed_first = 0
for d in sorted(glob.glob(os.path.join(HERE, "seeded", "C*"))):
    m = json.load(open(os.path.join(d, "meta.json")))
    notes = open(os.path.join(d, "notes.md")).read()
    first = [l.strip(" -*#") for l in notes.splitlines() if l.strip() and not l.startswith("#")]
    summ = (first[0][:170] if first else "").replace("|", "/")
    h = m["history"][0].replace("|", "/")
    if not h.startswith("caught by the target check as first"):
        missed_first += 1
    rows.append("| %s | %s | %s | %s |" % (m["id"], ", ".join(m["caught_by"]), summ, h))
p = os.path.join(HERE, "DESIGN.md")
s = open(p).read()
a = s.index("| change | caught by (quick) |")
b = s.index("\nLimits of this evidence:")
head = "| change | caught by (quick) | what was changed (agent's words, abridged) | first evaluation → now |\n|--------|-------------------|---------------------------------------------|------------------------|\n"
s = s[:a] + head + "\n".join(rows) + "\n" + s[b:]
open(p, "w").write(s)
print(len(rows), "rows;", missed_first, "with a non-trivial history")
