"""Distribute the shapes of one property over a process pool, aggregate, write evidence, print verdict."""
from __future__ import annotations

import hashlib
import importlib
import json
import multiprocessing as mp
import os
import sys
import time
from typing import Any, Dict, List

HERE = os.path.dirname(os.path.dirname(os.path.abspath(__file__)))
_OUT = os.environ.get("VERIF_OUT")  # scratch output root for runs against a scratch copy of the repository (EQL_SRC)
EVIDENCE_DIR = os.path.join(_OUT, "evidence") if _OUT else os.path.join(HERE, "evidence")
REPLAY_DIR = os.path.join(_OUT, "replays") if _OUT else os.path.join(HERE, "replays")
FINDINGS_FILE = os.path.join(HERE, "known_findings.json")
NPROC = int(os.environ.get("VERIF_NPROC", "16"))


def load_findings(prop: str) -> List[Dict[str, Any]]:
    if not os.path.exists(FINDINGS_FILE):
        return []
    with open(FINDINGS_FILE) as f:
        doc = json.load(f)
    return [e for e in doc.get("findings", []) if e.get("property") == prop]


def _module(prop: str):
    return importlib.import_module("props." + prop.lower())


def _worker(args):
    prop, spec, open_regions, fidelity, twin, limits = args
    from . import case as C
    mod = _module(prop)
    t0 = time.perf_counter()
    if twin is not None:
        mod.TWINS[twin]["apply"]()
    try:
        cs = mod.make_case(spec)
        res = C.explore_case(cs, open_regions, fidelity=fidelity, stop_at_first=twin is not None and mod.TWINS[twin].get("expect") != "survive",
                             profile=twin is None, max_paths=limits.get("max_paths"),
                             max_wall=limits.get("max_wall"))
    except Exception as e:
        import traceback
        res = dict(spec=spec, cexs=[], known=[], fidelity=0, outcomes=0, functions=[], sample=None,
                   errors=["worker exception: %s\n%s" % (e, traceback.format_exc()[-1500:])], stats=dict(paths=0, error=True))
    res["wall"] = round(time.perf_counter() - t0, 3)
    res["twin"] = twin
    return res


def _plain_witness(prop: str, entry: Dict[str, Any], open_regions: List[str]):
    """Replay a finding's witness on the real code with plain data (in a child process)."""
    from . import case as C
    mod = _module(prop)
    cs = mod.make_case(entry["witness"]["spec"])
    failing, hit, outcome = C.plain_verdict(cs, entry["witness"]["values"], open_regions)
    return failing, hit, C.jsonable(outcome)


def _witness_worker(args):
    prop, entry, open_regions = args
    try:
        return ("ok",) + tuple(_plain_witness(prop, entry, open_regions))
    except Exception as e:
        import traceback
        return ("error", "%s\n%s" % (e, traceback.format_exc()[-1200:]))


def write_replay(prop: str, spec, cex) -> str:
    os.makedirs(REPLAY_DIR, exist_ok=True)
    doc = dict(property=prop, spec=spec, values=cex["values"], failing=cex["failing"], outcome=cex["outcome"])
    h = hashlib.sha1(json.dumps(doc, sort_keys=True).encode()).hexdigest()[:12]
    path = os.path.join(REPLAY_DIR, "%s_%s.json" % (prop, h))
    with open(path, "w") as f:
        json.dump(doc, f, indent=1, sort_keys=True)
    return path


def replay_file(path: str) -> int:
    from . import case as C
    with open(path) as f:
        doc = json.load(f)
    prop = doc["property"]
    mod = _module(prop)
    cs = mod.make_case(doc["spec"])
    failing, hit, outcome = C.plain_verdict(cs, doc["values"], [])
    print("property  :", prop)
    print("shape     :", json.dumps(doc["spec"], sort_keys=True))
    print("inputs    :", json.dumps(doc["values"], sort_keys=True))
    print("engine    :", json.dumps(C.jsonable(outcome)))
    if hasattr(cs, "expected"):
        try:
            print("reference :", json.dumps(C.jsonable(cs.expected(doc["values"]))))
        except Exception as e:  # pragma: no cover
            print("reference : <%s>" % e)
    print("failing obligations:", failing)
    if failing:
        print("REPRODUCED: the real code violates %s on this input" % prop)
        return 1
    print("not reproduced (the property holds on this input)")
    return 0


def run_property(prop: str, tier: str, seed: int) -> int:
    t0 = time.time()
    mod = _module(prop)
    findings = load_findings(prop)
    open_f = [e for e in findings if e.get("status") == "open"]
    fixed_f = [e for e in findings if e.get("status") == "fixed"]
    open_regions = sorted({e["region"] for e in open_f if e.get("region")})
    specs = mod.shapes(tier, seed)
    limits = getattr(mod, "LIMITS", {}).get(tier, {})
    fid = getattr(mod, "FIDELITY", {}).get(tier, "all")
    fid_every = getattr(mod, "FIDELITY_EVERY", {}).get(tier, 1)
    budget = getattr(mod, "WALL_BUDGET", {}).get(tier, 600 if tier == "quick" else 3600)
    tasks = []
    for i, s in enumerate(specs):
        f = fid if (i % fid_every == 0) else "first"
        tasks.append((prop, s, open_regions, f, None, limits))
    ctx_mp = mp.get_context("fork")
    results: List[Dict[str, Any]] = []
    not_run = 0
    with ctx_mp.Pool(NPROC, maxtasksperchild=getattr(mod, "TASKS_PER_CHILD", 1)) as pool:
        it = pool.imap_unordered(_worker, tasks, chunksize=1)
        for _ in range(len(tasks)):
            remaining = budget - (time.time() - t0)
            try:
                r = it.next(timeout=max(1.0, remaining))
            except mp.TimeoutError:
                not_run = len(tasks) - len(results)
                pool.terminate()
                break
            results.append(r)
    # ---- twins (vacuity guard): each sabotage must be caught on a slice of this check's own shapes
    twins = getattr(mod, "TWINS", {})
    twin_results = {}
    if twins and not os.environ.get("VERIF_NO_TWINS"):
        ttasks = []
        for name, tw in twins.items():
            for s in tw["specs"](tier):
                ttasks.append((prop, s, open_regions, "none", name, dict(max_paths=3000, max_wall=60)))
        with ctx_mp.Pool(NPROC, maxtasksperchild=1) as pool:
            for r in pool.imap_unordered(_worker, ttasks, chunksize=1):
                d = twin_results.setdefault(r["twin"], dict(killed=False, errors=[]))
                if r["cexs"]:
                    d["killed"] = True
                d["errors"].extend(r["errors"])
    # ---- witnesses of listed findings (plain replay, separate process each)
    witness = {}
    if findings:
        with ctx_mp.Pool(min(NPROC, len(findings)), maxtasksperchild=1) as pool:
            outs = pool.map(_witness_worker, [(prop, e, open_regions) for e in findings])
        for e, o in zip(findings, outs):
            witness[e["id"]] = o

    # ---------------------------------------------------------------- aggregate
    agg = dict(paths=0, pruned=0, decisions=0, queries=0, solver_s=0.0, obligations=0, discharged=0, unknowns=0)
    errors, truncated, cex_list, functions = [], [], [], set()
    fidelity = 0
    nontrivial = 0
    samples = []
    known_seen = 0
    coverage_checked = 0
    metrics = {}
    for r in results:
        for mk_, mv_ in r.get("metrics", {}).items():
            metrics[mk_] = metrics.get(mk_, 0) + mv_
            if mv_:
                metrics["shapes_with_" + mk_] = metrics.get("shapes_with_" + mk_, 0) + 1
        st = r.get("stats", {})
        for k in agg:
            agg[k] += st.get(k, 0)
        if st.get("truncated"):
            truncated.append(r["spec"])
        if st.get("coverage_checked"):
            coverage_checked += 1
        errors.extend(r["errors"])
        fidelity += r["fidelity"]
        if r["outcomes"] >= 2:
            nontrivial += 1
        functions.update(r["functions"])
        for c in r["cexs"]:
            cex_list.append((r["spec"], c))
        known_seen += r.get("known_count", 0)
        if r["sample"] is not None and len(samples) < 5:
            samples.append(r["sample"])
    violations = 0
    printed = 0
    lines = []
    seen_keys = set()
    for spec, c in cex_list:
        violations += 1
        key = json.dumps(spec, sort_keys=True)
        if key in seen_keys:
            continue
        seen_keys.add(key)
        path = write_replay(prop, spec, c)
        if printed < 10:
            lines.append("VIOLATION property=%s replay=%s" % (prop, path))
            lines.append("  shape=%s" % key[:300])
            lines.append("  inputs=%s failing=%s engine=%s" % (json.dumps(c["values"], sort_keys=True)[:400],
                                                                c["failing"], json.dumps(c["outcome"])[:300]))
            printed += 1
    # findings
    known_lines = []
    finding_notes = []
    for e in open_f:
        o = witness.get(e["id"])
        if o is None or o[0] == "error":
            errors.append("witness of finding %s could not be replayed: %s" % (e["id"], o))
            continue
        failing = o[1]
        if failing:
            known_lines.append("KNOWN-FINDING: property=%s %s [%s]" % (prop, e["what"], e["id"]))
        else:
            finding_notes.append("open finding %s: witness no longer fails on this tree" % e["id"])
    for e in fixed_f:
        o = witness.get(e["id"])
        if o is None or o[0] == "error":
            errors.append("witness of fixed finding %s could not be replayed: %s" % (e["id"], o))
            continue
        if o[1]:
            violations += 1
            cex = dict(values=e["witness"]["values"], failing=o[1], outcome=o[3])
            path = write_replay(prop, e["witness"]["spec"], cex)
            lines.append("VIOLATION property=%s replay=%s" % (prop, path))
            lines.append("  regression of fixed finding %s: %s" % (e["id"], e["what"]))
        else:
            finding_notes.append("fixed finding %s: witness passes (regression obligation)" % e["id"])
    twins_killed = sorted(n for n, d in twin_results.items() if d["killed"] and twins[n].get("expect") != "survive")
    negative_ok = sorted(n for n, d in twin_results.items() if not d["killed"] and twins[n].get("expect") == "survive")
    for n, d in twin_results.items():
        if twins[n].get("expect") == "survive":
            if d["killed"] or d["errors"]:
                errors.append("negative twin %s (a behaviour-preserving change) was flagged: false-alarm guard failed (%s)"
                              % (n, d["errors"][:1]))
        elif not d["killed"]:
            errors.append("twin %s survived: the check is vacuous for that mechanism (%s)" % (n, d["errors"][:1]))
    if not results:
        errors.append("no shape was explored")
    wall = time.time() - t0
    for ln in known_lines:
        print(ln)
    for ln in lines:
        print(ln)
    for s in truncated[:10]:
        print("INCONCLUSIVE shape=%s (path/wall cap reached; excluded from the claim)" % json.dumps(s, sort_keys=True)[:200])
    if not_run:
        print("INCONCLUSIVE %d shapes not run (wall budget %ds reached; excluded from the claim)" % (not_run, budget))
    for e in errors[:10]:
        print("HARNESS-ERROR %s" % e[:1500], file=sys.stderr)

    bounds = dict(getattr(mod, "BOUNDS", {}).get(tier, {}))
    coverage = dict(
        states=max(agg["paths"], 0), transitions=max(agg["decisions"], 0),
        traces_validated_against_impl=fidelity + len(cex_list),
        samples=samples or [dict(note="no sample recorded")],
        obligations=agg["obligations"], discharged=agg["discharged"], solver_queries=agg["queries"],
        solver_time_s=round(agg["solver_s"], 3), unknown_answers=agg["unknowns"],
        shapes_enumerated=len(specs), shapes_explored=len(results), shapes_not_run=not_run,
        shapes_with_coverage_obligation=coverage_checked,
        distinct_nontrivial=nontrivial, evaluations=agg["paths"],
        rule="a case is one program shape; its paths are the z3-feasible control paths of the real engine over "
             "symbolic data; a shape is non-trivial when at least two of its paths have different engine outcomes",
        pruned_paths=agg["pruned"], truncated_shapes=[json.dumps(s, sort_keys=True)[:200] for s in truncated][:50],
        functions_encoded=sorted(functions), bounds=bounds, twins_killed=twins_killed,
        twins_total=len([n for n in twin_results if twins[n].get("expect") != "survive"]),
        negative_twins_not_flagged=negative_ok, known_findings_listed=[e["id"] for e in open_f],
        known_finding_instances_seen=known_seen, finding_notes=finding_notes,
        exhaustive=(not truncated and not not_run and not errors),
        solver="z3 %s (python API), QF linear integer arithmetic + Booleans" % _z3v(),
        harness_errors=len(errors), metrics=metrics,
    )
    ev = dict(property_id=prop, tier=tier, seed=seed, level="model_checking", coverage=coverage,
              assumptions=list(getattr(mod, "ASSUMPTIONS", [])) + [
                  "z3 answers (unsat/sat) are trusted; unknown is never counted as discharged",
                  "user data outside the declared sorts (floats, unbounded strings, value-hashed objects) is outside the claim",
                  "program shapes are enumerated concretely up to the stated bounds; data are symbolic (all values)"],
              wall_s=round(wall, 2), violations=violations)
    os.makedirs(EVIDENCE_DIR, exist_ok=True)
    with open(os.path.join(EVIDENCE_DIR, "%s.json" % prop), "w") as f:
        json.dump(ev, f, indent=1, sort_keys=True)
    print("%s tier=%s shapes=%d/%d paths=%d decisions=%d solver_queries=%d obligations=%d/%d fidelity=%d "
          "nontrivial=%d twins=%d/%d known_instances=%d violations=%d errors=%d wall=%.1fs"
          % (prop, tier, len(results), len(specs), agg["paths"], agg["decisions"], agg["queries"],
             agg["discharged"], agg["obligations"], fidelity, nontrivial, len(twins_killed), len([n for n in twin_results if twins[n].get("expect") != "survive"]),
             known_seen, violations, len(errors), wall))
    if violations:
        return 1
    if errors:
        return 3
    return 0


def _z3v():
    import z3
    return z3.get_version_string()
