"""C10 - for_all yields exactly the bindings whose condition holds for every value."""
from __future__ import annotations

import json
import random

from symex.case import Case
from symex import eqlshapes as S
from symex import querycase as Q
from symex.eqlshapes import an, entity, set_of, symbolic_mode, and_
from entity_query_language import for_all

ASSUMPTIONS = [
    "the universal variable/expression has a non-empty finite domain (the property's scope); |U| in 1..3",
    "free variables are selected; row sets are compared",
    "optionally evaluated with caching disabled as well (spec key cache=off)",
]
BOUNDS = {"quick": dict(free_domain=3, universal_domain="1..2 (3 for single leaves)", leaves="L<=2 in the quantified condition",
                        flatten_universal="2 groups (2+1 elements) x 2-3 free objects, 4 condition kinds x 4 positions"),
          "thorough": dict(free_domain=3, universal_domain="1..3", leaves="L<=3, cache on and off")}
LIMITS = {"quick": dict(max_paths=8000, max_wall=90), "thorough": dict(max_paths=60000, max_wall=400)}
FIDELITY_EVERY = {"quick": 3, "thorough": 1}
WALL_BUDGET = {"quick": 420, "thorough": 3000}


class C10(Case):
    prop = "C10"

    def free_spec(self):
        sp = self.spec
        return dict(sp, vars={v: p for v, p in sp["vars"].items() if v != "u"})

    def run(self, mk):
        from entity_query_language.cache_data import enable_caching, disable_caching
        sp = self.spec
        allc = ["and", sp["c"], sp["d"]] if sp.get("d") else sp["c"]
        pools = Q.make_pools(mk, dict(sp, cond=allc))
        data = dict(pools=pools, rows=None)
        if sp.get("cache") == "off":
            disable_caching()
        try:
            with symbolic_mode():
                V = Q.declare_vars(sp, pools)
                uni = S.build_operand(sp["universal"], V)
                fa = for_all(uni, S.build(sp["c"], V))
                pos = sp.get("position", "only")
                if pos == "only":
                    conds = [fa]
                elif pos == "and_left":
                    conds = [and_(fa, S.build(sp["d"], V))]
                elif pos == "and_right":
                    conds = [and_(S.build(sp["d"], V), fa)]
                elif pos == "multi":
                    conds = [S.build(sp["d"], V), fa]
                sel = [S.build_operand(o, V) for o in sp["select"]]
                if sp.get("form", "set_of") == "entity":
                    q = an(entity(sel[0], *conds))
                else:
                    q = an(set_of(sel, *conds))
            res = list(q.evaluate())
            rows = Q.rows_of(res, sel, sp, pools)
            if sp.get("twice"):
                rows2 = Q.rows_of(list(q.evaluate()), sel, sp, pools)
                data["rows2"] = rows2
        except Exception as e:
            enable_caching()
            return data, ["exc", type(e).__name__, str(e)[:200]]
        enable_caching()
        data["rows"] = rows
        out = Q.view(rows, sp)
        if sp.get("twice"):
            out = [out, Q.view(data["rows2"], sp)]
        return data, out

    def obligations(self, alg, data, outcome):
        if outcome and outcome[0] == "exc":
            return [("no_exception:%s:%s" % (outcome[1], outcome[2][:80]), alg.const(False))]
        sp = self.spec
        pools = data["pools"]
        allobjs = [o for p in pools.values() for o in p]
        fs = self.free_spec()
        U = pools[sp["vars"]["u"]]

        def sat(sigma):
            env = Q.env_of(sigma, fs, pools)
            ts = []
            for uo in U:
                e2 = dict(env)
                e2["u"] = uo
                ts.append(Q.holds(alg, sp["c"], e2, allobjs))
            t = alg.and_(*ts)
            if sp.get("d"):
                t = alg.and_(t, Q.holds(alg, sp["d"], env, allobjs))
            return t
        obs = Q.row_obligations(alg, data["rows"], fs, pools, sat, demand_no_dup=False)
        if sp.get("twice"):
            obs += Q.row_obligations(alg, data["rows2"], fs, pools, sat, demand_no_dup=False, prefix="re-eval:")
        return obs


class C10Flatten(Case):
    """Scenario: the universal is an UNNEST expression t = flatten(g.items) over another variable g.  Scope "all": g is bound by
    nothing else and only x is selected - the universal ranges over every element of every group.  Scope "per_g": a sibling
    condition to the LEFT of the for_all binds g and (x, g) is selected - per binding the universal ranges over the elements of
    that g's (non-empty) collection.  (g free AND selected is left out: the statement does not fix which of the two is meant.)
    The element is used directly as a comparison operand (elements define the ordering operators) or through an attribute."""
    prop = "C10"

    def run(self, mk):
        from entity_query_language import flatten, let
        from entity_query_language.cache_data import enable_caching, disable_caching
        from props.c16 import Par, Elem
        from symex.eqlshapes import Item
        sp = self.spec
        elems = [Elem(w=mk.int("e%d.w" % j), name="e%d" % j) for j in range(3)]
        groups = [Par(k=0, items=[elems[0], elems[1]], name="g0"), Par(k=1, items=[elems[2]], name="g1")]
        xs = [Item(a=mk.int("x%d.a" % i), b=mk.int("x%d.b" % i), name="x%d" % i) for i in range(sp.get("n", 2))]
        data = dict(elems=elems, groups=groups, xs=xs, evals=[])
        if sp.get("cache") == "off":
            disable_caching()
        try:
            with symbolic_mode():
                x = let(Item, domain=xs)
                g = let(Par, domain=groups)
                t = flatten(g.items)
                kind = sp["kind"]
                if kind == "direct":
                    c = t <= x.a
                elif kind == "attr":
                    c = t.w <= x.a
                elif kind == "only_t":
                    c = t > 0
                elif kind == "not_direct":
                    c = S.not_(t > x.a)
                fa = for_all(t, c)
                pos = sp.get("position", "only")
                d = (x.b > 0)
                if sp["scope"] == "per_g":
                    d = and_(g.k >= 0, d)      # binds g (always true) before the quantifier is reached
                conds = {"only": [fa], "and_right": [and_(d, fa)], "and_left": [and_(fa, d)], "multi": [d, fa]}[pos]
                q = an(set_of([x, g], *conds)) if sp["scope"] == "per_g" else an(set_of([x], *conds))
            for _ in range(2 if sp.get("twice") else 1):
                rows = [[next((i for i, o in enumerate(xs) if o is r[x]), -1),
                         next((j for j, o in enumerate(groups) if o is r[g]), -1) if sp["scope"] == "per_g" else 0]
                        for r in q.evaluate()]
                data["evals"].append(rows)
        except Exception as e:
            enable_caching()
            return data, ["exc", type(e).__name__, str(e)[:200]]
        enable_caching()
        return data, data["evals"]

    def obligations(self, alg, data, outcome):
        if outcome and outcome[0] == "exc":
            return [("no_exception:%s:%s" % (outcome[1], outcome[2][:80]), alg.const(False))]
        sp = self.spec
        obs = []
        for n, rows in enumerate(data["evals"]):
            pre = "eval%d:" % n
            obs.append((pre + "cells", alg.const(all(i >= 0 and j >= 0 for i, j in rows))))
            for i, xo in enumerate(data["xs"]):
                for j, go in enumerate(data["groups"] if sp["scope"] == "per_g" else [None]):
                    es = go.items if go is not None else data["elems"]
                    if sp["kind"] == "only_t":
                        ts = [alg.cmp("gt", e.w, 0) for e in es]
                    else:
                        ts = [alg.cmp("le", e.w, xo.a) for e in es]
                    want = alg.and_(*ts)
                    if sp.get("position", "only") != "only":
                        want = alg.and_(want, alg.cmp("gt", xo.b, 0))
                    obs.append((pre + "pair_x%d_g%d" % (i, j), alg.iff(alg.const([i, j] in rows), want)))
        return obs


def make_case(spec):
    if spec.get("scenario") == "flatten_universal":
        return C10Flatten(spec)
    return C10(spec)


def shapes(tier, seed):
    rnd = random.Random(seed)
    out = []
    both = [["cmp", "gt", ["a", "x", "a"], ["a", "u", "a"]], ["cmp", "ne", ["a", "x", "b"], ["a", "u", "b"]],
            ["cmp", "le", ["a", "u", "a"], ["a", "x", "b"]], ["cmp", "eq", ["a", "x", "a"], ["a", "u", "a"]]]
    only_u = [["cmp", "gt", ["a", "u", "a"], ["lit", 0]], ["cmp", "lt", ["a", "u", "a"], ["a", "u", "b"]]]
    only_x = [["cmp", "gt", ["a", "x", "a"], ["lit", 1]], ["cmp", "le", ["a", "x", "b"], ["a", "x", "c"]]]
    extra = [["cmp", "lt", ["a", "x", "c"], ["lit", 2]], ["pf", "x"]]
    universals = [["v", "u"], ["a", "u", "a"]]

    def add(c, nu=2, universal=["v", "u"], **kw):
        d = dict(pools={"X": 3, "U": nu}, vars={"x": "X", "u": "U"}, select=[["v", "x"]], c=c, universal=universal)
        d.update(kw)
        out.append(d)
    # predicates inside the quantified condition: two values, a Predicate-like function with a non-bool result
    preds = [["pv2", ["a", "u", "a"], ["a", "x", "a"]], ["pgap", ["a", "x", "b"], ["a", "u", "b"]], ["pgap", ["a", "u", "a"], ["lit", 0]]]
    for c in preds:
        for nu in (2, 3):
            add(c, nu)
        add(["not", c], 2)
        add(["and", c, both[0]], 2, pools={"X": 2, "U": 2})
        add(["or", only_x[0], c], 2, pools={"X": 2, "U": 2})
        add(c, 2, d=extra[0], position="and_right")
    singles = both + only_u + only_x
    for c in singles:
        for nu in (1, 2, 3):
            add(c, nu)
        add(c, 2, form="entity")
        add(c, 2, twice=True)
        add(["not", c], 2)
        add(c, 2, cache="off")
    # universal given as an attribute expression (the suite's form): the condition mentions that expression
    for c in (both[0], both[3], only_u[0]):
        add(c, 2, universal=["a", "u", "a"])
        add(c, 3, universal=["a", "u", "a"])
    pairs = [(a, b) for a in singles for b in singles if a is not b]
    for (a, b) in pairs:
        for op in ("and", "or"):
            if tier == "thorough" or rnd.random() < 0.35:
                add([op, a, b], 2)
            if tier == "thorough" and rnd.random() < 0.3:
                add(["not", [op, a, b]], 2, cache="off")
    # a disjunction whose left alternative is a conjunction over (x, u) and whose right alternative does not mention u, and the
    # dual (L = 3 inside the quantifier)
    for P in both[:3]:
        for Q_ in both[1:4]:
            if P is Q_:
                continue
            for R in only_x:
                add(["or", ["and", P, Q_], R], 2, pools={"X": 2, "U": 2})
                add(["and", ["or", P, R], Q_], 2, pools={"X": 2, "U": 2})
        add(["or", ["and", P, only_u[0]], only_x[0]], 3, pools={"X": 2, "U": 3})
        add(["or", only_x[1], ["and", P, both[3]]], 3, pools={"X": 2, "U": 3})
    # combined with other conditions by and_
    for c in singles:
        for d in extra:
            for pos in ("and_left", "and_right", "multi"):
                if tier == "thorough" or rnd.random() < 0.6:
                    add(c, 2, d=d, position=pos)
    # the universal is flatten(g.items): every element of the collection of the bound g
    for kind in ("direct", "attr", "only_t", "not_direct"):
        for pos in ("only", "and_right", "and_left", "multi"):
            out.append(dict(scenario="flatten_universal", scope="all", kind=kind, position=pos))
        for pos in ("and_right", "multi"):
            out.append(dict(scenario="flatten_universal", scope="per_g", kind=kind, position=pos))
            out.append(dict(scenario="flatten_universal", scope="per_g", kind=kind, position=pos, twice=True))
        out.append(dict(scenario="flatten_universal", scope="all", kind=kind, position="and_right", twice=True))
        out.append(dict(scenario="flatten_universal", scope="per_g", kind=kind, position="and_right", cache="off"))
        out.append(dict(scenario="flatten_universal", scope="all", kind=kind, position="only", n=3))
    # two free variables
    for c in (["cmp", "gt", ["a", "x", "a"], ["a", "u", "a"]],
              ["and", ["cmp", "gt", ["a", "x", "a"], ["a", "u", "a"]], ["cmp", "lt", ["a", "y", "a"], ["a", "u", "b"]]],
              ["or", ["cmp", "gt", ["a", "x", "a"], ["a", "u", "a"]], ["cmp", "lt", ["a", "y", "a"], ["a", "u", "b"]]],
              ["cmp", "lt", ["a", "x", "a"], ["a", "y", "a"]]):
        out.append(dict(pools={"X": 2, "Y": 2, "U": 2}, classes={"U": "Other"}, vars={"x": "X", "y": "Y", "u": "U"},
                        select=[["v", "x"], ["v", "y"]], c=c, universal=["v", "u"]))
    if tier == "thorough":
        skels = list(S.tree_skeletons(3))
        for _ in range(300):
            c = S.fill(rnd.choice(skels), [rnd.choice(singles) for _ in range(3)])
            add(rnd.choice(S.negation_variants(c)), rnd.choice([2, 3]), cache=rnd.choice(["on", "off"]))
    seen, uniq = set(), []
    for s in out:
        k = json.dumps(s, sort_keys=True)
        if k not in seen:
            seen.add(k)
            uniq.append(s)
    return uniq


def _twin_union_instead_of_intersection():
    from entity_query_language import symbolic as sym
    from copy import copy

    def ev(self, sources=None, yield_when_false=False):
        sources = sources or {}
        sols = []
        for var_val in self.variable._evaluate__(sources):
            ctx = {**sources, **var_val}
            for cv in self.condition._evaluate__(ctx):
                if self.condition._is_false_:
                    continue
                f = {k: v for k, v in cv.items() if k in self.condition_unique_variable_ids}
                if f not in sols:
                    sols.append(f)
        for sol in sols:
            out = copy(sol)
            out.update(sources)
            yield out
    sym.ForAll._evaluate__ = ev


def _twin_only_first_universal_value():
    from entity_query_language import symbolic as sym
    orig = sym.ForAll._evaluate__

    def ev(self, sources=None, yield_when_false=False):
        v = self.variable
        orig_eval = v._evaluate__

        def first_only(*a, **k):
            for x in orig_eval(*a, **k):
                yield x
                return
        v._evaluate__ = first_only
        try:
            yield from orig(self, sources, yield_when_false)
        finally:
            del v._evaluate__
    sym.ForAll._evaluate__ = ev


def _twin_universal_leaks_into_free():
    from entity_query_language import symbolic as sym
    sym.ForAll.condition_unique_variable_ids = property(lambda self: [v.id_ for v in self.condition._unique_variables_])


_b = ["cmp", "gt", ["a", "x", "a"], ["a", "u", "a"]]
_sp = lambda c, nu=2: dict(pools={"X": 3, "U": nu}, vars={"x": "X", "u": "U"}, select=[["v", "x"]], c=c, universal=["v", "u"])
TWINS = {
    "intersection_replaced_by_union": dict(apply=_twin_union_instead_of_intersection, specs=lambda t: [_sp(_b)]),
    "only_first_universal_value_checked": dict(apply=_twin_only_first_universal_value, specs=lambda t: [_sp(_b)]),
    "universal_variable_kept_in_bindings": dict(apply=_twin_universal_leaks_into_free, specs=lambda t: [_sp(_b)]),
}
