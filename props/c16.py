"""C16 - flatten behaves as UNNEST: one row per inner element, correlated with its parent."""
from __future__ import annotations

import json
from dataclasses import dataclass
from typing import Any

from symex.case import Case
from symex.values import SList
from entity_query_language import an, entity, set_of, let, symbolic_mode, symbol, flatten, and_, not_, predicate

ASSUMPTIONS = [
    "each parent's inner collection is a list over a shared candidate pool whose MEMBERSHIP is symbolic (so empty, overlapping "
    "and different lengths are all covered); candidates are not repeated inside one collection; a bare (non-iterable) element "
    "as the parent's attribute is a variant",
    "row sets are compared; when parent and element are both selected no (parent, element) pair may occur twice",
]
BOUNDS = {"quick": dict(parents="2-3", candidates=3, selections="{e}, {p,e}, {e,p}, {p.k,e}", conditions="none / on e / on p / relating both / or / not; element through an attribute and as direct operand"),
          "thorough": dict(parents=3, candidates=4)}
LIMITS = {"quick": dict(max_paths=20000, max_wall=120), "thorough": dict(max_paths=300000, max_wall=900)}
FIDELITY_EVERY = {"quick": 2, "thorough": 2}
WALL_BUDGET = {"quick": 420, "thorough": 3200}


@symbol
@dataclass(eq=False)
class Par:
    k: Any = 0
    items: Any = None
    name: str = ""


@symbol
@dataclass(eq=False)
class Elem:
    w: Any = 0
    name: str = ""

    def __gt__(self, other):      # elements that are themselves comparable: `flatten(p.items) > k` compares the ELEMENT
        return self.w > other

    def __ge__(self, other):
        return self.w >= other

    def __lt__(self, other):
        return self.w < other

    def __le__(self, other):
        return self.w <= other


@predicate
def first_above(a, b, k):
    """Two values that must come from the SAME element; only the first decides."""
    return a > k


@predicate
def both_same(a, b):
    return a == b


@symbol
@dataclass(eq=False)
class FalsyElem(Elem):
    """An element whose truth value is False (like 0, None or an empty string): still ONE element."""

    def __bool__(self):
        return False


def build_cond(c, p, e):
    k = c[0]
    if k == "PP":       # a predicate with two arguments derived from the same flattened element
        return first_above(e.w, e.w, c[1])
    if k == "PS":
        return both_same(e.w, e.w)
    if k == "PPk":      # ... one from the element, one from its parent
        return first_above(e.w, p.k, c[1])
    if k == "e>":
        return e.w > c[1]
    if k == "p>":
        return p.k > c[1]
    if k == "e>p":
        return e.w > p.k
    if k == "E>":
        return e > c[1]
    if k == "E>p":
        return e > p.k
    if k == "p==e":
        return p.k == e.w
    if k == "and":
        return and_(build_cond(c[1], p, e), build_cond(c[2], p, e))
    if k == "or":
        return build_cond(c[1], p, e) | build_cond(c[2], p, e)
    if k == "not":
        return not_(build_cond(c[1], p, e))
    raise ValueError(c)


def holds(alg, c, po, eo):
    k = c[0]
    if k in ("PP", "PPk"):
        return alg.cmp("gt", eo.w, c[1])
    if k == "PS":
        return alg.const(True)
    if k == "e>":
        return alg.cmp("gt", eo.w, c[1])
    if k == "p>":
        return alg.cmp("gt", po.k, c[1])
    if k in ("e>p", "E>p"):
        return alg.cmp("gt", eo.w, po.k)
    if k == "E>":
        return alg.cmp("gt", eo.w, c[1])
    if k == "p==e":
        return alg.cmp("eq", po.k, eo.w)
    if k == "and":
        return alg.and_(holds(alg, c[1], po, eo), holds(alg, c[2], po, eo))
    if k == "or":
        return alg.or_(holds(alg, c[1], po, eo), holds(alg, c[2], po, eo))
    if k == "not":
        return alg.not_(holds(alg, c[1], po, eo))
    raise ValueError(c)


class C16(Case):
    prop = "C16"

    def prepare(self, mk):
        sp = self.spec
        np_, nc = sp.get("parents", 2), sp.get("cands", 3)
        ecls = FalsyElem if sp.get("falsy_elems") else Elem
        cands = [ecls(w=mk.int("e%d.w" % j), name="e%d" % j) for j in range(nc)]
        seq = cands + [cands[0]] if sp.get("repeat") else cands   # repeat: one object named twice in a collection
        parents = []
        for i in range(np_):
            if sp.get("scalar") and i == np_ - 1:
                items = cands[i % nc]   # a bare element: counts as a single-element collection
            else:
                items = mk.slist("p%d.items" % i, seq)
            parents.append(Par(k=mk.int("p%d.k" % i), items=items, name="p%d" % i))
        return dict(parents=parents, cands=cands, rows=None)

    def evaluate(self, data, times=None):
        """Builds the query afresh and evaluates it `times` times; returns (data with the LAST rows, view)."""
        sp = self.spec
        parents, cands = data["parents"], data["cands"]
        data = dict(data)
        times = times or (2 if sp.get("twice") else 1)
        try:
            with symbolic_mode():
                p = let(Par, domain=parents)
                e = flatten(p.items)
                conds = [build_cond(sp["cond"], p, e)] if sp.get("cond") else []
                sel_map = {"p": p, "e": e, "pk": p.k, "ew": e.w}
                sel = [sel_map[s] for s in sp["select"]]
                if sp.get("form") == "entity":
                    q = an(entity(sel[0], *conds))
                else:
                    q = an(set_of(sel, *conds))
            for _ in range(times):
                res = list(q.evaluate())      # the obligations are stated on the LAST evaluation
        except Exception as ex:
            return data, ["exc", type(ex).__name__, str(ex)[:200]]
        rows = []
        for r in res:
            cells = [r] if sp.get("form") == "entity" else [r[s] for s in sel]
            row = []
            for s, c in zip(sp["select"], cells):
                if s == "p":
                    row.append(next((i for i, o in enumerate(parents) if o is c), -1))
                elif s == "e":
                    row.append(next((j for j, o in enumerate(cands) if o is c), -1))
                else:
                    row.append(c)
            rows.append(row)
        data["rows"] = rows
        return data, [[c if s in ("p", "e") else "*" for s, c in zip(sp["select"], r)] for r in rows]

    def run(self, mk):
        return self.evaluate(self.prepare(mk))

    def _present(self, alg, parent, j, cands):
        it = parent.items
        if isinstance(it, SList):
            terms = [p for c, p in zip(it.candidates, it.present) if c is cands[j]]
            return alg.or_(*terms)
        if isinstance(it, list):
            return alg.const(any(o is cands[j] for o in it))
        return alg.const(it is cands[j])

    def obligations(self, alg, data, outcome):
        if outcome and outcome[0] == "exc":
            return [("no_exception:%s:%s" % (outcome[1], outcome[2][:80]), alg.const(False))]
        sp = self.spec
        parents, cands, rows = data["parents"], data["cands"], data["rows"]
        from symex.values import SInt

        def intlike(c):
            return isinstance(c, SInt) or (isinstance(c, int) and not isinstance(c, bool))
        pairs = [(i, j) for i in range(len(parents)) for j in range(len(cands))]
        sat = {}
        for (i, j) in pairs:
            t = self._present(alg, parents[i], j, cands)
            if sp.get("cond"):
                t = alg.and_(t, holds(alg, sp["cond"], parents[i], cands[j]))
            sat[(i, j)] = t

        def matches(row, i, j):
            ts = []
            for s, c in zip(sp["select"], row):
                if s == "p":
                    if c != i:
                        return alg.const(False)
                elif s == "e":
                    if c != j:
                        return alg.const(False)
                elif s == "pk":
                    if not intlike(c):
                        return alg.const(False)
                    ts.append(alg.int_eq(c, parents[i].k))
                elif s == "ew":
                    if not intlike(c):
                        return alg.const(False)
                    ts.append(alg.int_eq(c, cands[j].w))
            return alg.and_(*ts)
        obs = [("cells_are_parents_and_candidates", alg.const(all(c >= 0 for r in rows for s, c in zip(sp["select"], r) if s in ("p", "e"))))]
        for n, r in enumerate(rows):
            obs.append(("row_%d_is_an_element_of_its_parent" % n, alg.or_(*[alg.and_(sat[ij], matches(r, *ij)) for ij in pairs])))
        for (i, j) in pairs:
            obs.append(("element_%d_of_parent_%d_has_a_row" % (j, i), alg.implies(sat[(i, j)], alg.or_(*[matches(r, i, j) for r in rows]))))
        if "p" in sp["select"] and "e" in sp["select"]:
            keys = [tuple(c for s, c in zip(sp["select"], r) if s in ("p", "e")) for r in rows]
            if not sp.get("repeat"):
                obs.append(("no_pair_twice", alg.const(len(keys) == len(set(keys)))))
            else:
                # one row per OCCURRENCE of an element in its parent's collection
                pi, ei = sp["select"].index("p"), sp["select"].index("e")
                for (i, j) in pairs:
                    it = parents[i].items
                    n = sum(1 for r in rows if r[pi] == i and r[ei] == j)
                    if isinstance(it, SList):
                        occ = [p for c, p in zip(it.candidates, it.present) if c is cands[j]]
                        if len(occ) < 2:
                            continue
                        ok = alg.int_eq(alg.count(occ), n)
                        if sp.get("cond"):
                            ok = z3_ite(holds(alg, sp["cond"], parents[i], cands[j]), ok, n == 0)
                    elif isinstance(it, list):
                        k_occ = sum(1 for c in it if c is cands[j])
                        if sum(1 for c in (cands + [cands[0]]) if c is cands[j]) < 2:
                            continue
                        sat_c = holds(alg, sp["cond"], parents[i], cands[j]) if sp.get("cond") else True
                        ok = alg.const(n == (k_occ if sat_c else 0))
                    else:
                        continue
                    obs.append(("one_row_per_occurrence_p%d_e%d:%d" % (i, j, n), ok))
        return obs


def z3_ite(c, a, b):
    import z3
    return z3.If(c, a, z3.BoolVal(bool(b)))


def make_case(spec):
    return C16(spec)


def shapes(tier, seed):
    out = []
    conds = [None, ["e>", 1], ["p>", 0], ["e>p"], ["p==e"], ["and", ["e>", 0], ["p>", 0]], ["or", ["e>", 1], ["p>", 1]],
             ["not", ["e>p"]], ["or", ["e>p"], ["p>", 2]], ["or", ["and", ["e>", 2], ["p>", 0]], ["p==e"]],
             ["or", ["and", ["e>", 1], ["p>", 1]], ["p>", 3]],
             ["and", ["e>", 0], ["not", ["e>", 2]]], ["or", ["e>", 2], ["not", ["e>", 0]]]]
    sels = [(["e"], "entity"), (["e"], "set_of"), (["p", "e"], "set_of"), (["e", "p"], "set_of"), (["pk", "e"], "set_of"),
            (["p", "ew"], "set_of"), (["ew"], "entity")]
    np_ = 2
    nc = 3 if tier == "quick" else 4
    for c in conds:
        for sel, form in sels:
            out.append(dict(parents=np_, cands=nc, cond=c, select=sel, form=form))
    for c in ((None, ["e>", 1]) if tier == "quick" else (None, ["e>", 1], ["e>p"], ["or", ["e>", 1], ["p>", 1]])):
        for sel, form in sels[:4]:
            out.append(dict(parents=3, cands=3, cond=c, select=sel, form=form))
            out.append(dict(parents=2, cands=3, cond=c, select=sel, form=form, scalar=True))
    for c in (None, ["e>", 1]):
        for sel, form in [(["p", "e"], "set_of"), (["e", "p"], "set_of"), (["e"], "entity")]:
            out.append(dict(parents=2, cands=2, cond=c, select=sel, form=form, repeat=True))
    # the flattened element itself as operand of a comparison (not an attribute of it)
    direct = [["E>", 1], ["E>p"], ["and", ["p>", 0], ["E>", 1]], ["or", ["E>", 1], ["p>", 1]], ["not", ["E>", 1]],
              ["and", ["E>", 0], ["not", ["E>", 2]]]]
    for c in direct:
        for sel, form in sels[:4]:
            out.append(dict(parents=np_, cands=3, cond=c, select=sel, form=form))
    # elements that are FALSY objects, in collections and as a bare (non-iterable) value
    for c in (None, ["e>", 1], ["E>", 0]):
        for sel, form in sels[:3]:
            out.append(dict(parents=2, cands=2, cond=c, select=sel, form=form, falsy_elems=True))
            out.append(dict(parents=2, cands=2, cond=c, select=sel, form=form, falsy_elems=True, scalar=True))
    # predicates taking several values of one flattened element
    preds = [["PP", 1], ["PS"], ["PPk", 0], ["and", ["p>", 0], ["PP", 1]], ["or", ["PP", 2], ["p>", 1]]]
    for c in preds:
        for sel, form in sels[:4]:
            out.append(dict(parents=np_, cands=3, cond=c, select=sel, form=form))
    conds = conds + direct
    for c in conds[1:]:
        out.append(dict(parents=np_, cands=nc, cond=c, select=["p", "e"], form="set_of", twice=True))
        out.append(dict(parents=np_, cands=nc, cond=c, select=["e"], form="entity", twice=True))
    return out


def _twin_flatten_loses_parent():
    """Parent binding replaced by the first parent for every element."""
    from entity_query_language import symbolic as sym
    orig = sym.QueryObjectDescriptor._bind_selected_variables_
    from copy import copy

    def bind(self, selected_vars, bindings):
        gens = {v: v._evaluate__(copy(bindings)) for v in selected_vars}
        for sol in sym.generate_combinations(gens):
            new = copy(bindings)
            new.update({v._id_: sol[v][v._id_] for v in selected_vars})
            yield new
    sym.QueryObjectDescriptor._bind_selected_variables_ = bind


def _twin_flatten_drops_last_element():
    from entity_query_language import symbolic as sym

    def am(self, value):
        inner = value.value
        inner_iter = [inner] if not sym.is_iterable(inner) else list(inner)
        for v in inner_iter[:-1] if len(inner_iter) > 1 else inner_iter:
            yield sym.HashedValue(v)
    sym.Flatten._apply_mapping_ = am


def _twin_scalar_not_singleton():
    from entity_query_language import symbolic as sym

    def am(self, value):
        inner = value.value
        if not sym.is_iterable(inner):
            return
        for v in inner:
            yield sym.HashedValue(v)
    sym.Flatten._apply_mapping_ = am


TWINS = {
    "parent_and_elements_combined_by_product": dict(apply=_twin_flatten_loses_parent,
                                                    specs=lambda t: [dict(parents=2, cands=3, cond=None, select=["p", "e"], form="set_of")]),
    "flatten_drops_last_element": dict(apply=_twin_flatten_drops_last_element,
                                       specs=lambda t: [dict(parents=2, cands=3, cond=None, select=["e"], form="entity")]),
    "scalar_is_not_a_single_element": dict(apply=_twin_scalar_not_singleton,
                                           specs=lambda t: [dict(parents=2, cands=3, cond=None, select=["p", "e"], form="set_of", scalar=True)]),
}
