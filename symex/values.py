"""Symbolic proxy values handed to the real engine as user data, and the "makers" that create inputs.

A case declares its inputs through a maker:
  * ``SymMaker``  creates proxies backed by fresh z3 constants registered with the exploration context;
  * ``PlainMaker`` returns ordinary Python values taken from a model (fidelity replay, counterexample
    replay, stored replays) - no proxy, no solver anywhere.
"""
from __future__ import annotations

from typing import Any, Dict, List, Sequence

import z3

from .explorer import Ctx, HarnessError

_ctx: Ctx = None  # type: ignore


def set_ctx(c):
    global _ctx
    _ctx = c


def get_ctx() -> Ctx:
    return _ctx


def zint(v):
    """z3 term of an int-like value (SInt or int, not bool)."""
    if isinstance(v, SInt):
        return v.z
    if isinstance(v, bool):
        return z3.IntVal(int(v))   # Python: True == 1, False == 0
    if isinstance(v, int):
        return z3.IntVal(v)
    return NotImplemented


class SInt:
    """Symbolic unbounded integer.  Comparisons fork eagerly and return real ``bool``s."""
    __slots__ = ("z",)

    def __init__(self, z):
        self.z = z

    def _cmp(self, other, op):
        o = zint(other)
        if o is NotImplemented:
            return NotImplemented
        return _ctx.decide(op(self.z, o))

    def __eq__(self, other):
        if other is self:
            return True
        return self._cmp(other, lambda a, b: a == b)

    def __ne__(self, other):
        if other is self:
            return False
        return self._cmp(other, lambda a, b: a != b)

    def __lt__(self, other):
        return self._cmp(other, lambda a, b: a < b)

    def __le__(self, other):
        return self._cmp(other, lambda a, b: a <= b)

    def __gt__(self, other):
        return self._cmp(other, lambda a, b: a > b)

    def __ge__(self, other):
        return self._cmp(other, lambda a, b: a >= b)

    def __bool__(self):
        return _ctx.decide(self.z != 0)

    # linear arithmetic (user methods such as `self.a + k`): the result is a new symbolic integer
    def __add__(self, other):
        o = zint(other)
        return NotImplemented if o is NotImplemented else SInt(self.z + o)

    __radd__ = __add__

    def __sub__(self, other):
        o = zint(other)
        return NotImplemented if o is NotImplemented else SInt(self.z - o)

    def __rsub__(self, other):
        o = zint(other)
        return NotImplemented if o is NotImplemented else SInt(o - self.z)

    def __neg__(self):
        return SInt(-self.z)

    __hash__ = None  # never hashed by the engine (HashedValue hashes ids)

    def __repr__(self):
        return "SInt(%s)" % self.z


class SBool:
    """Symbolic boolean (result of a user method / a boolean attribute)."""
    __slots__ = ("z",)

    def __init__(self, z):
        self.z = z

    def __bool__(self):
        return _ctx.decide(self.z)

    def __eq__(self, other):
        if isinstance(other, SBool):
            return _ctx.decide(self.z == other.z)
        if isinstance(other, bool):
            return _ctx.decide(self.z == z3.BoolVal(other))
        return NotImplemented

    def __ne__(self, other):
        r = self.__eq__(other)
        return r if r is NotImplemented else not r

    __hash__ = None

    def __repr__(self):
        return "SBool(%s)" % self.z


class SRef:
    """Symbolic reference: a z3 Int index into a pool of concrete objects with identity equality."""

    def __init__(self, z, pool):
        object.__setattr__(self, "_z", z)
        object.__setattr__(self, "_pool", pool)

    def __eq__(self, other):
        if isinstance(other, SRef):
            if other._pool is not self._pool:
                raise HarnessError("SRef compared across pools")
            return _ctx.decide(self._z == other._z)
        for j, o in enumerate(self._pool):
            if o is other:
                return _ctx.decide(self._z == j)
        return False

    def __ne__(self, other):
        return not self.__eq__(other)

    __hash__ = None

    def deref(self):
        for j, o in enumerate(self._pool[:-1]):
            if _ctx.decide(self._z == j):
                return o
        return self._pool[-1]

    def __getattr__(self, name):
        if name.startswith("__") or name == "_id_":
            raise AttributeError(name)
        vals = [getattr(o, name) for o in self._pool]
        if all(isinstance(v, SInt) for v in vals):
            e = vals[-1].z
            for j in range(len(vals) - 2, -1, -1):
                e = z3.If(self._z == j, vals[j].z, e)
            return SInt(e)
        return getattr(self.deref(), name)

    def __repr__(self):
        return "SRef(%s)" % self._z


class SList:
    """A list whose membership is symbolic: ``candidates[j]`` is present iff ``present[j]``.

    Order is the candidate order; a candidate may occur twice in ``candidates`` (repetition)."""

    def __init__(self, candidates: Sequence[Any], present: Sequence[z3.BoolRef]):
        self.candidates = list(candidates)
        self.present = list(present)

    def __iter__(self):
        for c, p in zip(self.candidates, self.present):
            if _ctx.decide(p):
                yield c

    def __contains__(self, item):
        for c in self:
            if c is item or c == item:
                return True
        return False

    def __len__(self):
        return sum(1 for _ in self)

    def __bool__(self):
        for _ in self:
            return True
        return False

    __hash__ = None

    def __repr__(self):
        return "SList(%d)" % len(self.candidates)


class SEnum:
    """Symbolic choice among concrete Python constants; pure operations are lifted point-wise."""

    def __init__(self, z, alts):
        object.__setattr__(self, "_z", z)
        object.__setattr__(self, "_alts", list(alts))

    def concretize(self):
        for j, a in enumerate(self._alts[:-1]):
            if _ctx.decide(self._z == j):
                return a
        return self._alts[-1]

    def _lift_bool(self, f):
        truth = []
        for a in self._alts:
            try:
                truth.append(bool(f(a)))
            except TypeError:
                truth.append(TypeError)
        if any(r is TypeError for r in truth):
            return f(self.concretize())  # raises exactly where Python raises
        return _ctx.decide(z3.Or(*[self._z == j for j, r in enumerate(truth) if r]))

    def __bool__(self):
        return self._lift_bool(bool)

    def __eq__(self, other):
        o = other.concretize() if isinstance(other, SEnum) else other
        return self._lift_bool(lambda a: a == o)

    def __ne__(self, other):
        o = other.concretize() if isinstance(other, SEnum) else other
        return self._lift_bool(lambda a: a != o)

    def __lt__(self, other):
        o = other.concretize() if isinstance(other, SEnum) else other
        return self._lift_bool(lambda a: a < o)

    def __le__(self, other):
        o = other.concretize() if isinstance(other, SEnum) else other
        return self._lift_bool(lambda a: a <= o)

    def __gt__(self, other):
        o = other.concretize() if isinstance(other, SEnum) else other
        return self._lift_bool(lambda a: a > o)

    def __ge__(self, other):
        o = other.concretize() if isinstance(other, SEnum) else other
        return self._lift_bool(lambda a: a >= o)

    def __contains__(self, item):
        it = item.concretize() if isinstance(item, SEnum) else item
        return self._lift_bool(lambda a: it in a)

    def __iter__(self):
        return iter(self.concretize())

    def __getattr__(self, name):
        """Boolean-valued methods of the alternatives (str.isdigit, str.startswith, ...) lifted point-wise."""
        if name.startswith("_"):
            raise AttributeError(name)
        if not all(hasattr(a, name) for a in self._alts):
            return getattr(self.concretize(), name)

        def method(*args, **kwargs):
            results = [getattr(a, name)(*args, **kwargs) for a in self._alts]
            if all(isinstance(r, bool) for r in results):
                return _ctx.decide(z3.Or(*[self._z == j for j, r in enumerate(results) if r]))
            return getattr(self.concretize(), name)(*args, **kwargs)
        return method

    __hash__ = None

    def __repr__(self):
        return "SEnum(%s)" % self._z


# ------------------------------------------------------------------------------------------ makers
class SymMaker:
    symbolic = True

    def __init__(self, ctx: Ctx):
        self.ctx = ctx

    def int(self, name: str) -> SInt:
        return SInt(self.ctx.declare(name, z3.Int(name)))

    def bool(self, name: str) -> SBool:
        return SBool(self.ctx.declare(name, z3.Bool(name)))

    def rawbool(self, name: str) -> z3.BoolRef:
        return self.ctx.declare(name, z3.Bool(name))

    def rawint(self, name: str, lo=None, hi=None):
        z = z3.Int(name)
        cons = []
        if lo is not None:
            cons.append(z >= lo)
        if hi is not None:
            cons.append(z < hi)
        return self.ctx.declare(name, z, *cons)

    def choice(self, name: str, n: int) -> int:
        return self.ctx.choose(name, n)

    def intrange(self, name: str, lo: int, hi: int) -> SInt:
        """Symbolic integer constrained to [lo, hi) (stays symbolic; compare it to fork)."""
        z = z3.Int(name)
        self.ctx.declare(name, z, z >= lo, z < hi)
        return SInt(z)

    def enum(self, name: str, alts: Sequence[Any]) -> SEnum:
        z = z3.Int(name)
        self.ctx.declare(name, z, z >= 0, z < len(alts))
        return SEnum(z, alts)

    def ref(self, name: str, pool: List[Any]) -> SRef:
        z = z3.Int(name)
        self.ctx.declare(name, z, z >= 0, z < len(pool))
        return SRef(z, pool)

    def slist(self, name: str, candidates: Sequence[Any]) -> SList:
        bits = [self.ctx.declare("%s#%d" % (name, j), z3.Bool("%s#%d" % (name, j)))
                for j in range(len(candidates))]
        return SList(candidates, bits)

    def decide(self, expr) -> bool:
        return self.ctx.decide(expr)

    def truth(self, name: str) -> bool:
        """A symbolic boolean concretised right away by forking (returns a real bool)."""
        return self.ctx.decide(self.ctx.declare(name, z3.Bool(name)))


class PlainMaker:
    """Inputs as ordinary Python values from ``values`` (name -> int/bool)."""
    symbolic = False

    def __init__(self, values: Dict[str, Any]):
        self.values = values
        self.asked: List[str] = []

    def _get(self, name, default):
        self.asked.append(name)
        return self.values.get(name, default)

    def int(self, name):
        return int(self._get(name, 0))

    def bool(self, name):
        return bool(self._get(name, False))

    def rawbool(self, name):
        return bool(self._get(name, False))

    def rawint(self, name, lo=None, hi=None):
        return int(self._get(name, lo or 0))

    def intrange(self, name, lo, hi):
        v = int(self._get(name, lo))
        if not lo <= v < hi:
            raise HarnessError("intrange %s=%s outside [%d,%d)" % (name, v, lo, hi))
        return v

    def choice(self, name, n):
        v = int(self._get(name, 0))
        if not 0 <= v < n:
            raise HarnessError("choice %s=%s outside [0,%d)" % (name, v, n))
        return v

    def enum(self, name, alts):
        return alts[int(self._get(name, 0))]

    def ref(self, name, pool):
        return pool[int(self._get(name, 0))]

    def slist(self, name, candidates):
        return [c for j, c in enumerate(candidates) if bool(self._get("%s#%d" % (name, j), False))]

    def truth(self, name):
        return bool(self._get(name, False))

    def decide(self, expr):
        raise HarnessError("decide() on a plain maker")
