#!/usr/bin/env python3
"""Usage: run_specs.py <prop> <filter-substring> [limit]  - explore the check's own shapes whose JSON contains the substring
(in-process, no pool); prints per-shape paths and counterexample labels.  EQL_SRC selects the source tree."""
import sys, json, importlib, os, time
sys.path.insert(0, '/verif')
src = os.environ.get("EQL_SRC", "/repo/src")
sys.path.insert(0, src)
prop, flt = sys.argv[1], sys.argv[2]
limit = int(sys.argv[3]) if len(sys.argv) > 3 else 1000
tier = os.environ.get("VERIF_TIER", "quick")
mod = importlib.import_module('props.' + prop.lower())
from symex.case import explore_case
specs = [s for s in mod.shapes(tier, 0) if flt in json.dumps(s, sort_keys=True)][:limit]
bad = 0
t0 = time.time()
for sp in specs:
    r = explore_case(mod.make_case(sp), [], fidelity="none", stop_at_first=True, profile=False, max_paths=3000)
    if r.get("errors"):
        bad += 1
        print("HARNESS-ERROR", json.dumps(sp), str(r["errors"])[:300])
    if r["cexs"]:
        bad += 1
        print("CEX", json.dumps(sp), [c.get("label") for c in r["cexs"]][:2])
print("%d shapes, %d with counterexamples, %.1fs" % (len(specs), bad, time.time() - t0))
