#!/bin/bash
# Runs the quick (or $1) tier of all twenty checks one after the other against /repo; prints one summary line per check.
cd "$(dirname "$0")/.."
tier=${1:-quick}
rc_all=0
for i in $(seq -w 1 20); do
  out=$(./check C$i --tier $tier 2>&1); rc=$?
  echo "C$i rc=$rc $(echo "$out" | tail -1 | cut -c1-260)"
  echo "$out" | grep -E "^(VIOLATION|KNOWN-FINDING)" | head -5
  [ $rc -ne 0 ] && rc_all=1
done
exit $rc_all
