"""C14 - a variable without a domain ranges over exactly the live registry of instances.

Like C08 the input is a HISTORY of control operations (op-codes chosen through the solver by n-way forks); field values are
irrelevant and stay concrete.  The solver's role is history enumeration with a closing coverage obligation.
"""
from __future__ import annotations

from dataclasses import dataclass
from typing import Any

from symex.case import Case
from symex.explorer import PathPruned
from entity_query_language import an, entity, let, symbolic_mode, rule_mode, symbol, infer, predicate
from entity_query_language.symbolic import Variable

ASSUMPTIONS = [
    "'constructed so far' is evaluated when a query is evaluated, for every evaluation of it (declaration time is not a cut-off)",
    "CLEAR is the test-suite fixture idiom (clear every per-class registry, then the registry map)",
    "hierarchy: A (dataclass) > B (decorated dataclass) > E (decorated); A > C (undecorated, hand-written __init__); "
    "D unrelated (hand-written __init__); G(B, C) decorated, the bottom of a diamond",
]
BOUNDS = {"quick": dict(history_length=4, declared_variables=2, ops=22, classes="A>B>E, A>C, D, diamond G(B,C); variables over A, B, D and the undecorated C"),
          "thorough": dict(history_length=5, declared_variables=2, ops=22)}
LIMITS = {"quick": dict(max_paths=400000, max_wall=500), "thorough": dict(max_paths=5000000, max_wall=3300)}
FIDELITY = {"quick": "first", "thorough": "first"}
WALL_BUDGET = {"quick": 560, "thorough": 3500}
TASKS_PER_CHILD = 1

INIT_CALLS = {"n": 0}


@symbol
@dataclass(eq=False)
class A:
    v: Any = 0

    def __post_init__(self):
        INIT_CALLS["n"] += 1


@symbol
@dataclass(eq=False)
class B(A):
    w: Any = 0


class C(A):
    def __init__(self, v=7):
        self.v = v
        INIT_CALLS["n"] += 1


@symbol
class D:
    def __init__(self, v=1, w=2):
        self.v = v
        self.w = w
        INIT_CALLS["n"] += 1


@symbol
@dataclass(eq=False)
class E(B):
    pass


@symbol
class G(B, C):
    """bottom of a diamond: A > B > G and A > C > G (multiple inheritance, hand-written __init__)"""

    def __init__(self, v=3, w=4):
        self.v = v
        self.w = w
        INIT_CALLS["n"] += 1


@symbol
@dataclass(eq=False)
class Src:
    k: Any = 0


@predicate
def positive(k):
    return k > 0


CLASSES = {"A": A, "B": B, "C": C, "D": D, "E": E, "G": G}
OPS = ["C_A_kw", "C_A_pos", "C_A_def", "C_B", "C_C", "C_D", "C_E", "C_G", "SYM_A", "SYM_B", "SYM_D", "SYM_EXC", "INFER_A", "INFER_B", "PREDQ", "CLEAR",
       "DECL_A", "DECL_B", "DECL_C", "DECL_D", "QUERY0", "QUERY1"]


class C14(Case):
    prop = "C14"

    def run(self, mk):
        sp = self.spec
        H = sp["H"]
        first = sp.get("first", [])
        live = []          # the harness's own log of live concrete instances (in construction order)
        decls = []         # (class, query)
        trace, bad = [], []
        srcs = [Src(1), Src(0), Src(2)]  # explicit domain for the rule (never queried itself)
        serial = [10]

        def nxt():
            serial[0] += 1
            return serial[0]
        for t in range(H):
            enabled = [o for o in OPS if not o.startswith("QUERY")]
            if len(decls) >= 2:
                enabled = [o for o in enabled if not o.startswith("DECL")]
            enabled += ["QUERY%d" % i for i in range(len(decls))]
            if t < len(first):
                if first[t] not in enabled:
                    raise PathPruned()
                op = first[t]
            else:
                op = enabled[mk.choice("op%d" % t, len(enabled))]
            trace.append(op)
            try:
                n0 = INIT_CALLS["n"]
                if op == "C_A_kw":
                    live.append(A(v=nxt()))
                elif op == "C_A_pos":
                    live.append(A(nxt()))
                elif op == "C_A_def":
                    live.append(A())
                elif op == "C_B":
                    live.append(B(nxt(), w=1))
                elif op == "C_C":
                    live.append(C(nxt()))
                elif op == "C_D":
                    live.append(D(w=nxt()))
                elif op == "C_E":
                    live.append(E(v=nxt()))
                elif op == "C_G":
                    live.append(G(nxt()))
                if op.startswith("C_") and not isinstance(live[-1], CLASSES[op[2]]):
                    bad.append([t, op, "construction outside every block did not build an instance", type(live[-1]).__name__])
                    break
                elif op == "SYM_EXC":
                    # a symbolic block left through a (handled) exception, with a symbolic construction inside
                    try:
                        with symbolic_mode():
                            A(v=6)
                            raise ValueError("user error inside the block")
                    except ValueError:
                        pass
                elif op.startswith("SYM_"):
                    cls = CLASSES[op[-1]]
                    before = sum(len(c.flat_cache) for c in Variable._cache_.values())
                    with symbolic_mode():
                        s = cls(v=5)
                    after = sum(len(c.flat_cache) for c in Variable._cache_.values())
                    if isinstance(s, cls) or INIT_CALLS["n"] != n0 or after != before:
                        bad.append([t, op, "symbolic construction registered/initialised", type(s).__name__,
                                    INIT_CALLS["n"] - n0, after - before])
                        break
                elif op.startswith("INFER_"):
                    cls = CLASSES[op[-1]]
                    with rule_mode():
                        s = let(Src, domain=srcs)
                        r = infer(entity(cls(v=s.k), s.k > 0))
                    made = list(r.evaluate())
                    if len(made) != 2 or any(type(m) is not cls for m in made):
                        bad.append([t, op, "rule produced", [type(m).__name__ for m in made]])
                        break
                    live.extend(made)
                elif op == "PREDQ":
                    # an unrelated query that calls a @predicate FUNCTION over an explicit domain (the engine keeps per-function
                    # entries next to the per-class registries)
                    with symbolic_mode():
                        sv = let(Src, domain=srcs)
                        pq = an(entity(sv, positive(sv.k)))
                    if len(list(pq.evaluate())) != 2:
                        bad.append([t, op, "predicate query returned a wrong number of rows"])
                        break
                elif op == "CLEAR":
                    for c in Variable._cache_.values():
                        c.clear()
                    Variable._cache_.clear()
                    live = []
                elif op.startswith("DECL_"):
                    cls = CLASSES[op[-1]]
                    with symbolic_mode():
                        var = let(cls)
                        q = an(entity(var))
                    decls.append((cls, q))
                elif op.startswith("QUERY"):
                    cls, q = decls[int(op[-1])]
                    got = list(q.evaluate())
                    want = [o for o in live if isinstance(o, cls)]
                    gi = sorted(id(o) for o in got)
                    wi = sorted(id(o) for o in want)
                    if gi != wi:
                        bad.append([t, op, "query over %s" % cls.__name__,
                                    "got %d instances (%d expected): missing=%d extra=%d duplicates=%d"
                                    % (len(got), len(want), len(set(wi) - set(gi)), len(set(gi) - set(wi)),
                                       len(gi) - len(set(gi)))])
                        break
            except Exception as e:
                bad.append([t, op, "exception", type(e).__name__, str(e)[:160]])
                break
        return dict(trace=trace), dict(trace=trace, bad=bad)

    def obligations(self, alg, data, outcome):
        bad = outcome["bad"]
        label = "registry_matches_the_log_of_live_instances"
        if bad:
            label += ":step%d:%s:%s" % (bad[0][0], bad[0][1], bad[0][2])
        return [(label, alg.const(not bad))]


def make_case(spec):
    return C14(spec)


def shapes(tier, seed):
    H = 4 if tier == "quick" else 5
    out = []
    firsts = [o for o in OPS if not o.startswith("QUERY")]
    for a in firsts:
        out.append(dict(H=H, first=[a]))
    return out


def _twin_symbolic_registers():
    import importlib
    pm = importlib.import_module("entity_query_language.predicate")
    from entity_query_language.hashed_data import HashedValue
    orig = pm.extract_selected_variable_and_expression

    def ext(symbolic_cls, domain=None, predicate_type=None, **kwargs):
        Variable._cache_[symbolic_cls].insert({}, HashedValue(object()), index=False)
        return orig(symbolic_cls, domain, predicate_type, **kwargs)
    pm.extract_selected_variable_and_expression = ext


def _twin_subclasses_not_included():
    from entity_query_language import cache_data as cd
    from entity_query_language import symbolic as sym
    import importlib
    pm = importlib.import_module("entity_query_language.predicate")

    def keys(cache, clazz):
        return [clazz] if clazz in cache else []
    cd.get_cache_keys_for_class_ = keys
    sym.get_cache_keys_for_class_ = keys
    pm.get_cache_keys_for_class_ = keys


def _twin_registry_snapshot_at_declaration():
    """The defect repaired in the registry-backed domain, re-introduced: instances are captured when the variable is declared
    / first evaluated."""
    from entity_query_language import symbolic as sym
    orig = sym.Variable.__iter__

    def it(self):
        if getattr(self, "_snap", None) is None:
            self._snap = list(orig(self))
        yield from self._snap
    sym.Variable.__iter__ = it


TWINS = {
    "symbolic_construction_registers": dict(apply=_twin_symbolic_registers, specs=lambda t: [dict(H=2, first=["SYM_A"])]),
    "subclasses_not_included": dict(apply=_twin_subclasses_not_included, specs=lambda t: [dict(H=3, first=["C_B", "DECL_A"])]),
    "registry_captured_once": dict(apply=_twin_registry_snapshot_at_declaration,
                                   specs=lambda t: [dict(H=4, first=["DECL_A", "QUERY0", "C_A_kw"])]),
}
