"""C13 - predicate-form terms equal the explicit form and filter by type."""
from __future__ import annotations

import json
from dataclasses import dataclass
from typing import Any

from symex.case import Case
from symex.values import SInt
from entity_query_language import an, a, entity, let, symbolic_mode, symbol, From, and_

ASSUMPTIONS = [
    "constraint values are SYMBOLIC integers (the solver picks which value is asked for) or literals; field values symbolic",
    "each domain member's class is chosen through the solver among {T, decorated subclass, undecorated subclass, unrelated "
    "@symbol class with the same attribute names, a str}",
    "the predicate form, the explicit form an(entity(x := let(T, d), x.f == v, ...)) and the reference are compared in one path",
]
BOUNDS = {"quick": dict(domain_members=3, signatures="dataclass with 3 fields (defaults), hand-written __init__ with 2, a namesake class with the fields reversed", given_fields="every subset, keyword / positional split", nesting="<=2"),
          "thorough": dict(domain_members=4, nesting="<=2")}
LIMITS = {"quick": dict(max_paths=20000, max_wall=120), "thorough": dict(max_paths=200000, max_wall=600)}
FIDELITY_EVERY = {"quick": 2, "thorough": 2}
WALL_BUDGET = {"quick": 420, "thorough": 3000}


@symbol
@dataclass(eq=False)
class P3:
    a: Any = 0
    b: Any = 0
    c: Any = 0


@symbol
@dataclass(eq=False)
class P3Sub(P3):
    pass


class P3Plain(P3):
    pass


@symbol
@dataclass(eq=False)
class Unrelated:
    a: Any = 0
    b: Any = 0
    c: Any = 0


@symbol
class H2:
    def __init__(self, a=0, b=0):
        self.a = a
        self.b = b


@symbol
@dataclass(eq=False)
class Holder:
    p: Any = None
    k: Any = 0


def _namesake():
    """A different @symbol class that is also called P3 (as if defined in another module) with another field order."""
    @symbol
    @dataclass(eq=False)
    class P3:
        c: Any = 0
        b: Any = 0
        a: Any = 0
    return P3


P3Rev = _namesake()
KINDS = [P3, P3Sub, P3Plain, Unrelated, str]
CLS = {"P3": P3, "H2": H2, "Holder": Holder, "P3Sub": P3Sub, "P3Plain": P3Plain, "P3Rev": P3Rev}
FIELDS = {"P3": ["a", "b", "c"], "H2": ["a", "b"], "P3Sub": ["a", "b", "c"], "P3Plain": ["a", "b", "c"], "P3Rev": ["c", "b", "a"]}


class C13(Case):
    prop = "C13"

    def _members(self, mk, n, cls_name, mixed):
        out = []
        for i in range(n):
            vals = {f: mk.int("m%d.%s" % (i, f)) for f in FIELDS[cls_name]}
            if mixed and cls_name in ("P3", "P3Sub", "P3Plain"):
                kind = KINDS[mk.choice("m%d.kind" % i, len(KINDS))]
            else:
                kind = CLS[cls_name]
            if kind is str:
                out.append("member%d" % i)
            else:
                out.append(kind(**vals))
        return out

    def _consts(self, mk, spec):
        vals = {}
        for f, v in list(spec.get("kw", {}).items()) + [("pos%d" % i, v) for i, v in enumerate(spec.get("pos", []))]:
            if v[0] == "sym":
                vals[v[1]] = mk.int(v[1]) if v[1] not in vals else vals[v[1]]
        return vals

    def run(self, mk):
        sp = self.spec
        cls_name = sp["cls"]
        T = CLS[cls_name]
        n = sp.get("n", 3)
        if sp.get("warm"):
            # another class was constructed and queried before (whatever the engine memoises per class is now filled)
            W = CLS[sp["warm"]]
            wobjs = [W(1, 2, 3), W(3, 2, 1)]
            with symbolic_mode():
                wq = an(entity(W(From(wobjs), 1)))
            list(wq.evaluate())
        members = self._members(mk, n, cls_name, sp.get("mixed", False))
        if sp.get("selfref"):
            # field c holds a (symbolic) reference to a member of the SAME domain - possibly the object itself
            for i, m in enumerate(members):
                m.c = mk.ref("m%d.cref" % i, members)
        consts = self._consts(mk, sp)
        # instances of T (and of a subclass) that exist in the registry but are NOT members of the supplied domain: a
        # variable over a supplied domain must never range over them, even when the domain holds no instance of T at all
        outside = [T(**{f: mk.int("out%d.%s" % (i, f)) for f in FIELDS[cls_name]}) for i in range(1)]
        if cls_name in ("P3", "P3Plain"):
            outside.append(P3Sub(**{f: mk.int("outsub.%s" % f) for f in FIELDS[cls_name]}))
        holders = None
        if sp.get("nested"):
            holders = [Holder(p=mk.ref("h%d.p" % i, members), k=mk.int("h%d.k" % i)) for i in range(2)]
        data = dict(members=members, consts=consts, holders=holders)

        def val(v):
            if v[0] == "member":
                return members[v[1]]
            return v[1] if v[0] == "lit" else consts[v[1]]

        def idx(res, pool):
            out = []
            for o in res:
                j = [k for k, it in enumerate(pool) if it is o]
                out.append(j[0] if j else -1)
            return out
        out = {}
        dom_kind = sp.get("domain", "list")

        def dom():
            if dom_kind == "tuple":
                return tuple(members)
            if dom_kind == "gen":
                return (m for m in members)
            return list(members)
        try:
            with symbolic_mode():
                kw = {f: val(v) for f, v in sp.get("kw", {}).items()}
                pos = [val(v) for v in sp.get("pos", [])]
                if sp.get("nested"):
                    inner = T(From(dom()), *pos, **kw)
                    term = Holder(From(holders), p=inner)
                    pool = holders
                else:
                    term = T(From(dom()), *pos, **kw)
                    pool = members
                q = an(entity(term))
            out["term"] = idx(list(q.evaluate()), pool)
            if sp.get("also_a"):
                with symbolic_mode():
                    q2 = a(T(From(dom()), *pos, **kw))
                out["a_spelling"] = idx(list(q2.evaluate()), pool)
            # explicit form
            with symbolic_mode():
                names = FIELDS[cls_name]
                given = dict(sp.get("kw", {}))
                for i, v in enumerate(sp.get("pos", [])):
                    given[names[i]] = v
                x = let(T, domain=dom())
                conds = [getattr(x, f) == val(v) for f, v in given.items()]
                if sp.get("nested"):
                    h = let(Holder, domain=holders)
                    qe = an(entity(h, h.p == x, *conds))
                else:
                    qe = an(entity(x, *conds)) if conds else an(entity(x))
            out["explicit"] = idx(list(qe.evaluate()), pool)
        except Exception as e:
            return data, ["exc", type(e).__name__, str(e)[:200]]
        return data, out

    def obligations(self, alg, data, outcome):
        if isinstance(outcome, list) and outcome and outcome[0] == "exc":
            return [("no_exception:%s:%s" % (outcome[1], outcome[2][:80]), alg.const(False))]
        sp = self.spec
        T = CLS[sp["cls"]]
        members, consts, holders = data["members"], data["consts"], data["holders"]
        names = FIELDS[sp["cls"]]
        given = dict(sp.get("kw", {}))
        for i, v in enumerate(sp.get("pos", [])):
            given[names[i]] = v

        def val(v):
            if v[0] == "member":
                return members[v[1]]
            return v[1] if v[0] == "lit" else consts[v[1]]

        def member_ok(m):
            if not isinstance(m, T):
                return alg.const(False)
            return alg.and_(*[alg.same(getattr(m, f), val(v), members) if v[0] == "member" else alg.cmp("eq", getattr(m, f), val(v))
                              for f, v in given.items()])
        obs = []
        for form, res in outcome.items():
            if sp.get("nested"):
                obs.append((form + ":rows_are_holders_each_once", alg.const(all(i >= 0 for i in res) and len(set(res)) == len(res))))
                for hi, h in enumerate(holders):
                    want = alg.or_(*[alg.and_(alg.same(h.p, m, members), member_ok(m)) for m in members])
                    obs.append((form + ":holder_%d" % hi, alg.iff(alg.const(hi in res), want)))
            else:
                obs.append((form + ":rows_are_domain_members_in_order_each_once",
                            alg.const(all(i >= 0 for i in res) and all(p < q for p, q in zip(res, res[1:])))))
                for mi, m in enumerate(members):
                    obs.append((form + ":member_%d" % mi, alg.iff(alg.const(mi in res), member_ok(m))))
        return obs


def make_case(spec):
    return C13(spec)


def shapes(tier, seed):
    import itertools
    out = []
    n = 3 if tier == "quick" else 4
    S = lambda k: ["sym", "k%d" % k]
    # every subset of fields by keyword; values symbolic
    for cls, fields in (("P3", ["a", "b", "c"]), ("H2", ["a", "b"])):
        for r in range(0, len(fields) + 1):
            for sub in itertools.combinations(fields, r):
                out.append(dict(cls=cls, kw={f: S(i) for i, f in enumerate(sub)}, n=n))
        # positional prefix after the domain, rest by keyword
        for npos in range(1, len(fields) + 1):
            out.append(dict(cls=cls, pos=[S(i) for i in range(npos)], n=n))
            if npos < len(fields):
                out.append(dict(cls=cls, pos=[S(i) for i in range(npos)], kw={fields[-1]: S(9)}, n=n))
    out.append(dict(cls="P3", kw={"a": ["lit", 0]}, n=n))
    out.append(dict(cls="P3", kw={"a": ["lit", 1], "c": ["lit", 0]}, n=n, also_a=True))
    out.append(dict(cls="P3", kw={"a": S(0), "b": S(0)}, n=n))  # same value asked for two fields
    # mixed-type domains: the isinstance filter, however the variable is declared
    for kw in ({}, {"a": S(0)}, {"b": S(0), "c": S(1)}):
        for dom in ("list", "tuple", "gen"):
            out.append(dict(cls="P3", kw=kw, n=n, mixed=True, domain=dom))
    out.append(dict(cls="P3", pos=[S(0)], n=n, mixed=True))
    out.append(dict(cls="P3Sub", kw={"a": S(0)}, n=n, mixed=True))
    out.append(dict(cls="P3Sub", kw={}, n=n, mixed=True))
    # the variable's type is an UNDECORATED subclass of a @symbol class: members of the base or of sibling subclasses are filtered out
    out.append(dict(cls="P3Plain", kw={}, n=n, mixed=True))
    out.append(dict(cls="P3Plain", kw={"a": S(0)}, n=n, mixed=True))
    out.append(dict(cls="P3Plain", pos=[S(0)], n=n, mixed=True, domain="tuple"))
    # domains holding no instance of T at all (empty, or only foreign objects)
    for kw in ({}, {"a": S(0)}):
        out.append(dict(cls="P3", kw=kw, n=0))
        out.append(dict(cls="P3", kw=kw, n=0, domain="tuple"))
        out.append(dict(cls="H2", kw=kw, n=0))
    # two different @symbol classes with the same __name__ and different constructor signatures, used one after the other
    for cls, warm in (("P3Rev", "P3"), ("P3", "P3Rev"), ("P3Rev", None)):
        out.append(dict(cls=cls, warm=warm, pos=[S(0)], n=n))
        out.append(dict(cls=cls, warm=warm, pos=[S(0), S(1)], kw={FIELDS[cls][-1]: S(9)}, n=n))
        out.append(dict(cls=cls, warm=warm, kw={"a": S(0)}, n=n))
    # a field of the class's own type: the value asked for is a member of the same domain (possibly the candidate itself)
    for kw in ({"c": ["member", 0]}, {"c": ["member", 1], "a": S(0)}):
        out.append(dict(cls="P3", kw=kw, n=n, selfref=True))
        out.append(dict(cls="P3", kw=kw, n=n, selfref=True, domain="tuple"))
    out.append(dict(cls="P3", pos=[S(0), S(1), ["member", 0]], n=n, selfref=True))
    # nested predicate-form term as a field value
    for kw in ({"a": S(0)}, {"a": S(0), "b": S(1)}, {}):
        out.append(dict(cls="P3", kw=kw, n=2, nested=True))
    out.append(dict(cls="P3", pos=[S(0)], n=2, nested=True))
    return out


def _twin_positional_offset():
    """The defect repaired in update_domain_and_kwargs_from_args, re-introduced: the From argument is counted."""
    import importlib
    import inspect
    pm = importlib.import_module("entity_query_language.predicate")

    def upd(symbolic_cls, *args, **kwargs):
        domain = None
        pm.update_cls_args(symbolic_cls)
        init_args = pm.cls_args[symbolic_cls]
        for i, arg in enumerate(args):
            if isinstance(arg, From):
                domain = arg
            else:
                kwargs[init_args[i + 1]] = arg
        return domain, kwargs
    pm.update_domain_and_kwargs_from_args = upd


def _twin_no_type_filter():
    import importlib
    pm = importlib.import_module("entity_query_language.predicate")
    orig = pm.extract_selected_variable_and_expression

    def ext(symbolic_cls, domain=None, predicate_type=None, **kwargs):
        if domain is not None and pm.is_iterable(domain.domain):
            keep = list(domain.domain)
            var, expr = orig(symbolic_cls, None, predicate_type, **kwargs)
            var._update_domain_(keep)
            return var, expr
        return orig(symbolic_cls, domain, predicate_type, **kwargs)
    pm.extract_selected_variable_and_expression = ext


def _twin_only_first_constraint():
    from entity_query_language import symbolic as sym
    import importlib
    pm = importlib.import_module("entity_query_language.predicate")
    orig = sym.properties_to_expression_tree

    def pte(var, properties):
        props = dict(list(properties.items())[:1])
        return orig(var, props)
    sym.properties_to_expression_tree = pte
    pm.properties_to_expression_tree = pte


TWINS = {
    "positional_argument_shifted_by_one": dict(apply=_twin_positional_offset, specs=lambda t: [dict(cls="P3", pos=[["sym", "k0"]], n=3)]),
    "domain_not_filtered_by_type": dict(apply=_twin_no_type_filter, specs=lambda t: [dict(cls="P3", kw={}, n=3, mixed=True)]),
    "only_first_field_constraint_used": dict(apply=_twin_only_first_constraint,
                                             specs=lambda t: [dict(cls="P3", kw={"a": ["sym", "k0"], "b": ["sym", "k1"]}, n=3)]),
}
