"""C06 - `the` returns the unique solution or raises, consistently with `an`."""
from __future__ import annotations

import json
import random

from symex.case import Case
from symex import eqlshapes as S
from symex import querycase as Q
from symex.eqlshapes import an, the
from props.c02 import xy_leaves, single_leaves, BASE2
from entity_query_language import MultipleSolutionFound, NoSolutionFound

ASSUMPTIONS = [
    "every variable of the description is selected (the property's scope)",
    "per path: the(desc).evaluate() twice on one query object, then an(desc) on a freshly built copy",
]
BOUNDS = {"quick": dict(domains="3 (single variable), 2x2; empty / foreign-only domains with registry instances outside", leaves="L<=2"),
          "thorough": dict(domains="4 / 3x2", leaves="L<=3 sampled")}
LIMITS = {"quick": dict(max_paths=8000, max_wall=90), "thorough": dict(max_paths=60000, max_wall=400)}
FIDELITY_EVERY = {"quick": 2, "thorough": 1}
WALL_BUDGET = {"quick": 420, "thorough": 3000}


class C06(Case):
    prop = "C06"

    def _the_once(self, q, sel, sp, pools):
        try:
            r = q.evaluate()
        except MultipleSolutionFound:
            return ["multiple"]
        except NoSolutionFound:
            return ["none"]
        except Exception as e:
            return ["exc", type(e).__name__, str(e)[:160]]
        row = Q.rows_of([r], sel, sp, pools)[0]
        return ["value", list(row)]

    def run(self, mk):
        sp = self.spec
        pools = Q.make_pools(mk, sp)
        data = dict(pools=pools)
        q, sel, V = Q.build_query(sp, pools, quant=the)
        o1 = self._the_once(q, sel, sp, pools)
        o2 = self._the_once(q, sel, sp, pools)
        try:
            qa, sela, _ = Q.build_query(sp, pools, quant=an)
            an_rows = [list(r) for r in Q.rows_of(list(qa.evaluate()), sela, sp, pools)]
        except Exception as e:
            an_rows = ["exc", type(e).__name__, str(e)[:160]]
        return data, dict(first=o1, second=o2, an=an_rows)

    def obligations(self, alg, data, outcome):
        sp = self.spec
        pools = data["pools"]
        allobjs = [o for p in pools.values() for o in p]
        cond = sp.get("cond")
        sigmas = list(Q.assignments(sp, pools))
        sat = [Q.holds(alg, cond, Q.env_of(s, sp, pools), allobjs) if cond else alg.const(True) for s in sigmas]
        cnt = alg.count(sat)
        obs = []
        o1 = outcome["first"]
        names = [o[1] for o in sp["select"]]
        if o1[0] == "value":
            obs.append(("value_implies_exactly_one_solution", alg.int_eq(cnt, 1)))
            row = dict(zip(names, o1[1]))
            hit = [t for s, t in zip(sigmas, sat) if all(s[v] == row[v] for v in names)]
            obs.append(("value_is_the_satisfying_assignment", hit[0] if hit else alg.const(False)))
        elif o1[0] == "multiple":
            obs.append(("multiple_implies_two_or_more", alg.int_ge(cnt, 2)))
        elif o1[0] == "none":
            obs.append(("none_implies_zero", alg.int_eq(cnt, 0)))
        else:
            obs.append(("no_other_exception:%s" % o1[1], alg.const(False)))
        obs.append(("same_outcome_on_re_evaluation", alg.const(outcome["second"] == o1)))
        a = outcome["an"]
        if a and a[0] == "exc":
            obs.append(("an_raises", alg.const(False)))
        elif o1[0] == "value":
            obs.append(("value_is_what_an_yields", alg.const(len(a) >= 1 and a[0] == o1[1])))
        return obs


def make_case(spec):
    return C06(spec)


def shapes(tier, seed):
    rnd = random.Random(seed)
    out = []
    n1 = 3 if tier == "quick" else 4
    ONE = dict(pools={"X": n1}, vars={"x": "X"}, select=[["v", "x"]])
    TWO = dict(BASE2, select=[["v", "x"], ["v", "y"]])
    vocab = S.leaf_vocabulary("x")
    core = S.core_leaves("x")
    J, SX, SY = xy_leaves(), single_leaves("x"), single_leaves("y")
    for leaf in vocab:
        out.append(dict(ONE, cond=leaf, form="entity"))
    for leaf in core:
        out.append(dict(ONE, cond=leaf, form="set_of"))
        out.append(dict(ONE, cond=["not", leaf], form="entity"))
    for l1 in core:
        for l2 in core:
            for op in ("and", "or"):
                if tier == "thorough" or rnd.random() < 0.5:
                    out.append(dict(ONE, cond=[op, l1, l2], form="entity"))
    out.append(dict(ONE, cond=None, form="entity"))
    # distinct objects that compare EQUAL by value are still distinct solutions
    EQ = dict(ONE, classes={"X": "EqItem"})
    for c in (["cmp", "gt", ["a", "x", "a"], ["lit", 0]], ["cmp", "lt", ["a", "x", "a"], ["a", "x", "b"]],
              ["or", ["cmp", "gt", ["a", "x", "a"], ["lit", 0]], ["cmp", "eq", ["a", "x", "b"], ["a", "x", "c"]]]):
        out.append(dict(EQ, cond=c, form="entity"))
        out.append(dict(EQ, cond=c, form="set_of"))
    # domains holding NO instance of the variable's type (empty / only foreign objects) while the registry holds instances:
    # zero solutions, whatever else exists
    for c in (None, core[0], ["not", core[0]]):
        for form in ("entity", "set_of"):
            out.append(dict(ONE, pools={"X": 0}, outside={"Item": 2}, cond=c, form=form))
            out.append(dict(ONE, pools={"X": 0}, outside={"Item": 2}, foreign={"X": 2}, cond=c, form=form))
        out.append(dict(ONE, pools={"X": 1}, outside={"Item": 2}, foreign={"X": 1}, cond=c, form="entity"))
    out.append(dict(TWO, pools={"X": 2, "Y": 0}, outside={"Other": 2}, cond=None))
    out.append(dict(TWO, pools={"X": 0, "Y": 2}, outside={"Item": 1}, foreign={"X": 1}, cond=J[0]))
    for l in J:
        out.append(dict(TWO, cond=l))
        out.append(dict(TWO, cond=["not", l]))
        out.append(dict(TWO, cond=l, select=[["v", "y"], ["v", "x"]]))
    # a disjunction whose branches mention different variable sets (one a strict subset of the other): an assignment satisfying
    # both branches is still ONE solution
    for j_ in J[:4]:
        for s_ in SX[:2] + SY[:2]:
            out.append(dict(TWO, cond=["or", j_, s_]))
            out.append(dict(TWO, cond=["or", s_, j_]))
    out.append(dict(TWO, cond=["or", SX[0], SY[0]]))
    for j_ in (J[0], J[3]):
        # ... pinned by a further condition on the variable the smaller branch does not mention, so that a single solution can
        # satisfy both branches
        out.append(dict(TWO, cond=["and", ["or", j_, SX[0]], SY[0]]))
        out.append(dict(TWO, cond=["and", SY[1], ["or", j_, SX[1]]]))
        out.append(dict(TWO, cond=["and", ["or", j_, SY[0]], SX[0]]))
        out.append(dict(TWO, pools={"X": 2, "Y": 1}, cond=["or", j_, SX[0]]))
    leaves = J[:5] + SX[:2] + SY[:2]
    for l1 in leaves:
        for l2 in leaves:
            if l1 is not l2 and (tier == "thorough" or rnd.random() < 0.35):
                out.append(dict(TWO, cond=[rnd.choice(["and", "or"]), l1, l2]))
    if tier == "thorough":
        skels = list(S.tree_skeletons(3))
        for _ in range(400):
            c = S.fill(rnd.choice(skels), [rnd.choice(core) for _ in range(3)])
            out.append(dict(ONE, cond=rnd.choice(S.negation_variants(c)), form="entity"))
        T32 = dict(pools={"X": 3, "Y": 2}, refs={"X": "Y"}, vars={"x": "X", "y": "Y"}, select=[["v", "x"], ["v", "y"]])
        for l in J:
            out.append(dict(T32, cond=l))
    seen, uniq = set(), []
    for s in out:
        k = json.dumps(s, sort_keys=True)
        if k not in seen:
            seen.add(k)
            uniq.append(s)
    return uniq


def _twin_the_accepts_first_of_many():
    from entity_query_language import symbolic as sym
    orig = sym.The._evaluate_

    def ev(self, sources=None, yield_when_false=False):
        try:
            return orig(self, sources, yield_when_false)
        except MultipleSolutionFound as e:
            sol = next(self._child_._evaluate__(sources or {}))
            sol[self._id_] = sol[self._var_._id_]
            return sol
    sym.The._evaluate_ = ev


def _twin_the_fails_on_third():
    from entity_query_language import symbolic as sym

    def ev(self, sources=None, yield_when_false=False):
        sources = sources or {}
        self._yield_when_false_ = yield_when_false
        self._child_._eval_parent_ = self
        sols = list(self._child_._evaluate__(sources))
        if len(sols) >= 3:
            raise MultipleSolutionFound(sols[0], sols[1])
        if not sols:
            raise NoSolutionFound(self._child_)
        result = sols[0]
        result[self._id_] = result[self._var_._id_]
        return result
    sym.The._evaluate_ = ev


def _twin_the_no_solution_returns_none():
    from entity_query_language import symbolic as sym
    orig = sym.The.evaluate

    def ev(self):
        try:
            return orig(self)
        except NoSolutionFound:
            raise MultipleSolutionFound(None, None)
    sym.The.evaluate = ev


_ONE = dict(pools={"X": 3}, vars={"x": "X"}, select=[["v", "x"]], form="entity")
TWINS = {
    "the_returns_first_of_many": dict(apply=_twin_the_accepts_first_of_many, specs=lambda t: [dict(_ONE, cond=S.core_leaves("x")[0])]),
    "the_tolerates_two_solutions": dict(apply=_twin_the_fails_on_third, specs=lambda t: [dict(_ONE, cond=S.core_leaves("x")[0])]),
    "no_solution_reported_as_multiple": dict(apply=_twin_the_no_solution_returns_none, specs=lambda t: [dict(_ONE, cond=S.core_leaves("x")[1])]),
}
