#!/usr/bin/env bash
# Idempotent, offline: builds /verif/.venv as an overlay of /venv (the repository's own
# interpreter and dependencies) plus z3-solver and crosshair-tool from the local wheelhouse.
set -euo pipefail
HERE="$(cd "$(dirname "${BASH_SOURCE[0]}")" && pwd)"
VENV="$HERE/.venv"
WHEELS=/opt/veriftools/wheels
STAMP="$VENV/.ok"
mkdir -p "$HERE/evidence" "$HERE/replays"
exec 9>"$HERE/.bootstrap.lock"
flock 9
if [ -f "$STAMP" ] && "$VENV/bin/python" -c "import z3, rustworkx" >/dev/null 2>&1; then
  exit 0
fi
rm -rf "$VENV"
/venv/bin/python -m venv "$VENV"
SP="$("$VENV/bin/python" -c 'import sysconfig; print(sysconfig.get_paths()["purelib"])')"
echo "import site; site.addsitedir('/venv/lib/python3.12/site-packages')" > "$SP/_base.pth"
PIP_NO_INDEX=1 "$VENV/bin/python" -m pip install -q --no-index --find-links "$WHEELS" z3-solver crosshair-tool >/dev/null
"$VENV/bin/python" -c "import z3, rustworkx, crosshair; print('verif venv ready: z3', z3.get_version_string())"
touch "$STAMP"
