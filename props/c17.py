"""C17 - concatenate yields a single value: all inner elements, in order."""
from __future__ import annotations

import z3

from symex.case import Case
from symex.values import SList
from entity_query_language import an, entity, let, symbolic_mode, concatenate, in_, not_, contains, or_, and_, flatten
from props.c16 import Par, Elem

ASSUMPTIONS = [
    "inner collections are lists over a shared candidate sequence with symbolic membership; the candidate sequence may name one "
    "object twice (repeated elements); a bare element as attribute value counts as a one-element collection",
    "the single value is compared as a SEQUENCE of identities (order and multiplicity) with the reference concatenation",
]
BOUNDS = {"quick": dict(parents="2-3", candidates=3, outer_domain="candidates + one foreign element",
                        combined="membership with another condition (6 forms); a third selected variable joined with the tested one (5 forms)"),
          "thorough": dict(parents=3, candidates=4)}
LIMITS = {"quick": dict(max_paths=20000, max_wall=120), "thorough": dict(max_paths=300000, max_wall=900)}
WALL_BUDGET = {"quick": 420, "thorough": 3200}


# membership in the concatenation combined with another condition on the outer variable (which is then already bound when the
# membership test is reached): kind -> (builder, reference over (member, w > 1))
COMBINED = {
    "or_in": (lambda x, c: or_(x.w > 1, in_(x, c)), lambda m, g: m or g),
    "in_or": (lambda x, c: or_(in_(x, c), x.w > 1), lambda m, g: m or g),
    "or_not_in": (lambda x, c: or_(x.w > 1, not_(in_(x, c))), lambda m, g: g or not m),
    "not_and_in": (lambda x, c: not_(and_(x.w > 1, in_(x, c))), lambda m, g: not (g and m)),
    "and_in": (lambda x, c: and_(x.w > 1, in_(x, c)), lambda m, g: g and m),
    "or_contains": (lambda x, c: or_(x.w > 1, contains(c, x)), lambda m, g: m or g),
}


# a THIRD variable h (selected) joined with the tested variable y: kind -> (builder, reference over (h.ref is y, member(y)))
from dataclasses import dataclass as _dc
from typing import Any as _Any
from entity_query_language import symbol as _symbol


@_symbol
@_dc(eq=False)
class Holder:
    ref: _Any = None
    name: str = ""


HOLDER = {
    "h_and_not_in": (lambda h, y, c: and_(h.ref == y, not_(in_(y, c))), lambda is_ref, m: is_ref and not m),
    "h_and_in": (lambda h, y, c: and_(h.ref == y, in_(y, c)), lambda is_ref, m: is_ref and m),
    "h_not_and_in": (lambda h, y, c: not_(and_(h.ref == y, in_(y, c))), lambda is_ref, m: not (is_ref and m)),
    "h_or_not_in": (lambda h, y, c: or_(h.ref != y, not_(in_(y, c))), lambda is_ref, m: (not is_ref) or not m),
    "h_in_and": (lambda h, y, c: and_(in_(y, c), h.ref == y), lambda is_ref, m: is_ref and m),
}


class C17(Case):
    prop = "C17"

    def run(self, mk):
        sp = self.spec
        np_, nc = sp.get("parents", 2), sp.get("cands", 3)
        base = [Elem(w=j, name="e%d" % j) for j in range(nc)]
        seq = list(base)
        if sp.get("repeat"):
            seq = base + [base[0]]          # the same object named twice in the candidate sequence
        parents = []
        for i in range(np_):
            if sp.get("scalar") and i == np_ - 1:
                items = base[i % nc]
            elif sp.get("lists") == "real":
                # real Python lists (membership still chosen through the solver, concretised when the list is built)
                items = [c for j, c in enumerate(seq) if mk.truth("p%d.items#%d" % (i, j))]
            else:
                items = mk.slist("p%d.items" % i, seq)
            if sp.get("nested"):
                # the parent's collection holds TRAYS (a list and a tuple) of elements: concatenate(flatten(p.items)) is the list of
                # the elements of all trays (real lists only)
                half = len(items) // 2
                items = [list(items[:half]), tuple(items[half:])]
            parents.append(Par(k=i, items=items, name="p%d" % i))
        foreign = Elem(w=99, name="foreign")
        outer = base + [foreign]
        data = dict(parents=parents, seq=seq, outer=outer, base=base)
        if sp["kind"] in HOLDER:
            data["holders"] = [Holder(ref=outer[mk.choice("h%d.ref" % i, len(outer))], name="h%d" % i) for i in range(2)]
        snapshot = [list(p_.items) if isinstance(p_.items, list) else None for p_ in parents]
        if sp.get("nested"):
            snapshot = [[e_ for tray in p_.items for e_ in tray] for p_ in parents]
        kind = sp["kind"]
        try:
            with symbolic_mode():
                # dup_parent: the supplied domain names the first parent a second time (C04: such a domain behaves the same on
                # every evaluation; whether the repeated object counts once or twice is not fixed by the statements)
                p = let(Par, domain=(parents + [parents[0]]) if sp.get("dup_parent") else parents)
                conc = concatenate(flatten(p.items)) if sp.get("nested") else concatenate(p.items)
                if kind == "value":
                    q = an(entity(conc))
                elif kind in COMBINED:
                    x = let(Elem, domain=outer)
                    q = an(entity(x, COMBINED[kind][0](x, conc)))
                elif kind in HOLDER:
                    y = let(Elem, domain=outer)
                    h = let(Holder, domain=data["holders"])
                    q = an(entity(h, HOLDER[kind][0](h, y, conc)))
                else:
                    x = let(Elem, domain=outer)
                    c = in_(x, conc) if kind in ("in", "not_in", "not_not_in", "not_not_not_in") else contains(conc, x)
                    for _ in range(kind.count("not_")):
                        c = not_(c)
                    q = an(entity(x, c))
            res = list(q.evaluate())
            out = {"first": self._view(res, data)}
            if sp.get("twice"):
                out["second"] = self._view(list(q.evaluate()), data)
            now = [[e_ for tray in p_.items for e_ in tray] if sp.get("nested") else p_.items for p_ in parents]
            data["unchanged"] = all(s_ is None or (len(s_) == len(n_) and all(a is b for a, b in zip(s_, n_)))
                                    for s_, n_ in zip(snapshot, now))
            data["snapshot"] = snapshot
        except Exception as ex:
            return data, ["exc", type(ex).__name__, str(ex)[:200]]
        return data, out

    def _view(self, res, data):
        outer = data["outer"]

        def ix(o):
            return next((j for j, e in enumerate(outer) if e is o), -1)
        if self.spec["kind"] == "value":
            return [[ix(o) for o in r] if isinstance(r, (list, tuple)) else ["notalist", repr(type(r))] for r in res]
        if self.spec["kind"] in HOLDER:
            return [next((j for j, ho in enumerate(data["holders"]) if ho is o), -1) for o in res]
        return [ix(o) for o in res]

    def _slots(self, alg, data):
        """[(candidate object, presence term)] in concatenation order."""
        out = []
        for par in data["parents"]:
            it = par.items
            if isinstance(it, SList):
                out += list(zip(it.candidates, it.present))
            elif isinstance(it, list) or self.spec.get("nested"):
                snap = data.get("snapshot")
                orig = snap[data["parents"].index(par)] if snap else it   # the collection as the user built it
                out += [(c, alg.const(True)) for c in orig]
            else:
                out.append((it, alg.const(True)))
        return out

    def obligations(self, alg, data, outcome):
        if isinstance(outcome, list) and outcome and outcome[0] == "exc":
            return [("no_exception:%s:%s" % (outcome[1], outcome[2][:80]), alg.const(False))]
        outer = data["outer"]
        slots = self._slots(alg, data)
        obs = [("user_collections_unchanged", alg.const(data.get("unchanged", True)))]
        for tag, view in outcome.items():
            if self.spec["kind"] == "value":
                obs.append((tag + ":exactly_one_row", alg.const(len(view) == 1)))
                if len(view) != 1 or (view[0] and view[0][0] == "notalist"):
                    obs.append((tag + ":the_row_is_a_list", alg.const(len(view) == 1 and not (view[0] and view[0][0] == "notalist"))))
                    continue
                L = view[0]
                if self.spec.get("dup_parent"):
                    # real lists only: both readings are concrete
                    once = [next(j for j, e in enumerate(outer) if e is c) for par in data["parents"] for c in par.items]
                    twice = once + [next(j for j, e in enumerate(outer) if e is c) for c in data["parents"][0].items]
                    obs.append((tag + ":value_is_the_concatenation_with_the_repeated_parent_counted_once_or_twice",
                                alg.const(L == once or L == twice)))
                    obs.append((tag + ":same_value_on_every_evaluation", alg.const(L == outcome["first"][0])))
                    continue
                if alg.symbolic:
                    pos = z3.IntVal(0)
                    terms = []
                    for cand, pres in slots:
                        ci = next(j for j, e in enumerate(outer) if e is cand)
                        at = z3.Or(*[pos == k for k in range(len(L)) if L[k] == ci]) if any(x == ci for x in L) else z3.BoolVal(False)
                        terms.append(z3.Implies(pres, at))
                        pos = pos + z3.If(pres, 1, 0)
                    terms.append(pos == len(L))
                    obs.append((tag + ":value_is_the_ordered_concatenation_with_multiplicity", z3.And(*terms)))
                else:
                    want = [next(j for j, e in enumerate(outer) if e is cand) for cand, pres in slots if pres]
                    obs.append((tag + ":value_is_the_ordered_concatenation_with_multiplicity", alg.const(L == want)))
            elif self.spec["kind"] in HOLDER:
                # h is selected, y is not: h is returned iff SOME y satisfies the condition (how often is not demanded)
                ref = HOLDER[self.spec["kind"]][1]
                obs.append((tag + ":rows_are_holders", alg.const(all(i >= 0 for i in view))))
                for hi, ho in enumerate(data["holders"]):
                    ts = []
                    for yo in outer:
                        member = alg.or_(*[pres for cand, pres in slots if cand is yo])
                        is_ref = ho.ref is yo
                        ts.append(alg.or_(alg.and_(member, alg.const(ref(is_ref, True))), alg.and_(alg.not_(member), alg.const(ref(is_ref, False)))))
                    obs.append((tag + ":holder_%d" % hi, alg.iff(alg.const(hi in view), alg.or_(*ts))))
            else:
                kind = self.spec["kind"]
                neg = kind.count("not_") % 2 == 1
                obs.append((tag + ":rows_in_outer_domain_order_each_once", alg.const(all(i >= 0 for i in view) and all(a < b for a, b in zip(view, view[1:])))))
                for m, xo in enumerate(outer):
                    member = alg.or_(*[pres for cand, pres in slots if cand is xo])
                    if kind in COMBINED:
                        ref = COMBINED[kind][1]
                        # the reference is a Boolean function of (member, xo.w > 1); xo.w is concrete
                        want = alg.or_(alg.and_(member, alg.const(ref(True, xo.w > 1))),
                                       alg.and_(alg.not_(member), alg.const(ref(False, xo.w > 1))))
                    else:
                        want = alg.not_(member) if neg else member
                    obs.append((tag + ":outer_%d" % m, alg.iff(alg.const(m in view), want)))
        return obs


def make_case(spec):
    return C17(spec)


def shapes(tier, seed):
    out = []
    nc = 3 if tier == "quick" else 4
    for kind in ("not_not_in", "not_not_contains", "not_not_not_in"):
        out.append(dict(kind=kind, parents=2, cands=nc))
    out.append(dict(kind="value", parents=2, cands=nc, twice=True, lists="real", dup_parent=True))
    out.append(dict(kind="value", parents=1, cands=2, twice=True, lists="real", dup_parent=True))
    for kind in ("value", "in", "not_in", "contains"):
        out.append(dict(kind=kind, parents=2, cands=nc, lists="real", nested=True))
    out.append(dict(kind="value", parents=2, cands=nc, lists="real", nested=True, repeat=True, twice=True))
    for kind in HOLDER:
        out.append(dict(kind=kind, parents=2, cands=2))
    for kind in COMBINED:
        out.append(dict(kind=kind, parents=2, cands=nc))
        out.append(dict(kind=kind, parents=2, cands=nc, twice=True, lists="real"))
    for kind in ("value", "in", "not_in", "contains", "not_contains"):
        for parents in (1, 2, 3):
            for repeat in (False, True):
                if parents == 3 and repeat and tier == "quick":
                    continue
                out.append(dict(kind=kind, parents=parents, cands=nc, repeat=repeat))
        out.append(dict(kind=kind, parents=2, cands=nc, scalar=True))
        out.append(dict(kind=kind, parents=2, cands=nc, twice=True))
        out.append(dict(kind=kind, parents=2, cands=nc, twice=True, lists="real"))
        out.append(dict(kind=kind, parents=3, cands=nc, lists="real", repeat=True))
    return out


def _twin_concatenate_dedups():
    from entity_query_language import symbolic as sym
    orig = sym.Concatenate._evaluate__

    def ev(self, sources=None):
        for d in orig(self, sources):
            if self._id_ in d:
                seen, out = set(), []
                for o in d[self._id_].value:
                    if id(o) not in seen:
                        seen.add(id(o))
                        out.append(o)
                d[self._id_] = sym.HashedValue(out)
            yield d
    sym.Concatenate._evaluate__ = ev


def _twin_concatenate_row_per_parent():
    from entity_query_language import symbolic as sym

    def ev(self, sources=None):
        sources = sources or {}
        if self._id_ in sources:
            yield sources
            return
        for child_v in self._child_._evaluate__(sources):
            v = child_v[self._child_._id_].value
            out = dict(child_v)
            out[self._id_] = sym.HashedValue(list(v) if sym.is_iterable(v) else [v])
            yield out
    sym.Concatenate._evaluate__ = ev


def _twin_not_contains_is_contains():
    from entity_query_language import symbolic as sym
    sym.not_contains = lambda a, b: True


TWINS = {
    "concatenate_drops_repeated_elements": dict(apply=_twin_concatenate_dedups, specs=lambda t: [dict(kind="value", parents=2, cands=3, repeat=True)]),
    "concatenate_yields_one_row_per_parent": dict(apply=_twin_concatenate_row_per_parent, specs=lambda t: [dict(kind="value", parents=2, cands=3)]),
    "negated_membership_always_true": dict(apply=_twin_not_contains_is_contains, specs=lambda t: [dict(kind="not_in", parents=2, cands=3)]),
}
