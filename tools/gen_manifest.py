#!/usr/bin/env python3
"""Regenerate MANIFEST.json from the table below (keeps the file valid and consistent)."""
import json
import os

HERE = os.path.dirname(os.path.dirname(os.path.abspath(__file__)))

TECH = ("dynamic symbolic execution of the real engine on z3-backed proxy data (every branch and every "
        "obligation decided by z3), shapes enumerated up to the bound")
NOTE = ("trusted: z3 (unsat/sat; unknown never counts), the explorer (guarded by a per-shape coverage obligation "
        "and a determinism guard), proxy fidelity (every path replayed on plain data without proxies), the "
        "reference oracle of the property (guarded by mutant twins that must be caught), CPython semantics. "
        "Bounded: shapes/domain sizes/history lengths as stated in the evidence; integers unbounded.")

CLAIMED = {
    # id: (design_ref, text)
}

NOT_APPLICABLE = {
}


def load_claims():
    import importlib.util
    p = os.path.join(HERE, "tools", "claims.py")
    spec = importlib.util.spec_from_file_location("claims", p)
    m = importlib.util.module_from_spec(spec)
    spec.loader.exec_module(m)
    return m.CLAIMED, m.NOT_APPLICABLE


def main():
    claimed, na = load_claims()
    checks = []
    for pid in sorted(claimed):
        c = claimed[pid]
        checks.append(dict(
            property_id=pid,
            quick_cmd="./check %s --tier quick" % pid,
            thorough_cmd="./check %s --tier thorough" % pid,
            evidence_file="evidence/%s.json" % pid,
            replay_cmd_template="./check replay {path}",
            engine="symex",
            level_claimed=dict(category="model_checking", text=c["text"], design_ref=c["design_ref"]),
            level_note=c.get("note", NOTE),
            technique=c.get("technique", TECH),
        ))
    man = dict(
        version=1,
        setup_cmd="./bootstrap.sh",
        hooks=dict(guard="EQL_VERIF", enable="no source hooks are needed: every observation point is public API or a "
                   "run-time wrapper installed by the harness; ./check exports EQL_VERIF=1 for uniformity",
                   baseline_off_cmd="cd /repo && /venv/bin/python -m pytest -ra -q -p no:cacheprovider --timeout=900 "
                   "--continue-on-collection-errors", source_commits=[], add_only=True),
        engines=[dict(name="symex", path="symex/", serves_properties=sorted(claimed),
                      kind_free_text="own DSE explorer: re-executes the real entity_query_language engine on z3-backed "
                      "proxy values; z3 decides branch feasibility, per-path obligations and a closing coverage obligation")],
        checks=checks,
        notes="See DESIGN.md. Exit codes: 0 held / 1 VIOLATION (replayed on plain data first) / 3 harness error.",
        not_applicable=[dict(property_id=k, reason=v) for k, v in sorted(na.items())],
    )
    with open(os.path.join(HERE, "MANIFEST.json"), "w") as f:
        json.dump(man, f, indent=1)
    print("MANIFEST.json: %d checks, %d not_applicable" % (len(checks), len(na)))


if __name__ == "__main__":
    main()
