"""Which properties are claimed (with their level text) and which are not (with a reason)."""
PENDING = "check not built yet in this round (planned, see DESIGN.md section 7); not claimed until it runs"

CLAIMED = {
    "C01": dict(design_ref="DESIGN.md 7/C01",
                text="Bounded-exhaustive symbolic execution: for every enumerated condition tree and EVERY integer/boolean "
                     "attribute valuation of a 3-4 object domain, the real engine's result list equals the reference filter "
                     "(membership, domain order, no duplicate). z3 decides each path's obligation and that the paths cover "
                     "the whole input space; shapes beyond the bound are outside the claim."),
}

NOT_APPLICABLE = {pid: PENDING for pid in ["C%02d" % i for i in range(1, 21)] if pid not in CLAIMED}
